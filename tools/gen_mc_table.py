#!/usr/bin/env python3
"""Regenerates the model-checking size table of DESIGN.md §2.1 from the evidence files (quick tier: the working tree's
evidence/*.json; thorough tier: evidence committed after the thorough pass, given as a git revision)."""
import json, glob, os, subprocess, sys
ROOT = os.path.dirname(os.path.dirname(os.path.abspath(__file__)))
THOROUGH_REV = sys.argv[1] if len(sys.argv) > 1 else None
CONST = {
 "MC_TxKV.cfg": "2 keys, 2 values, depth 2, 2 commits, 1 reader, <= 2 ops/tx", "MC_TxKV_cursor.cfg": "3 keys, 1 cursor, <= 3 ops",
 "MC_TxKV_readers.cfg": "2 readers, 3 commits", "MC_TxKV_deep.cfg": "3 commits, 2 readers, <= 3 ops/tx",
 "MC_Isolation.cfg": "page ids < 8, 4 txs, 2 readers", "MC_Isolation_nofl.cfg": "same, no freelist page", "MC_Isolation_deep.cfg": "page ids < 9, 5 txs, 3 readers",
 "MC_Crash.cfg": "page ids < 7, 3 txs, every crash subset + torn meta", "MC_Crash_nofl.cfg": "page ids < 8, 4 txs, no freelist page", "MC_Crash_deep.cfg": "page ids < 8, 4 txs, every crash subset + torn meta",
 "MC_Fault.cfg": "page ids < 8, 4 txs, 2 readers, one fault", "MC_Fault_nofl.cfg": "same, no freelist page", "MC_Fault_deep.cfg": "page ids < 8, 5 txs, 2 readers",
 "MC_Freelist.cfg": "pages 2..5, 3 txids, runs <= 2, 1 reader, all initial free sets", "MC_Freelist_deep.cfg": "pages 2..6",
 "MC_Size.cfg": "real constants, limit lattice x chunk sizes x initial maps", "MC_Size_nogrow.cfg": "same, NoGrowSync",
 "MC_Batch.cfg": "3 callers x 6 failure patterns", "MC_Batch1.cfg": "batch size 1", "MC_Batch3.cfg": "batch size 3",
 "MC_Lock.cfg": "3 actors, Open / OpenFail / Close", "MC_Locks.cfg": "3 goroutines x 2 ops, deadlock + liveness + StatsFresh", "MC_Locks_deep.cfg": "4 goroutines",
 "MC_BTree.cfg": "capacity 4, <= 12 keys",
}
def runs(evs):
    out = {}
    for e in evs:
        for r in e.get("coverage", {}).get("model_checking_runs", []) or []:
            k = r["config"]
            if k not in out or r["wall_s"] < out[k]["wall_s"]:
                out[k] = r
    return out
quick = runs([json.load(open(f)) for f in sorted(glob.glob(os.path.join(ROOT, "evidence", "C*.json")))])
deep = {}
if THOROUGH_REV:
    evs = []
    for i in range(1, 21):
        try:
            evs.append(json.loads(subprocess.run(["git", "-C", ROOT, "show", f"{THOROUGH_REV}:evidence/C{i:02d}.json"], capture_output=True, text=True).stdout))
        except Exception:
            pass
    deep = {k: v for k, v in runs(evs).items() if k not in quick}
def row(k, r, tier):
    n = lambda x: f"{x:,}".replace(",", " ")
    return f"| `{k[:-4]}`{' (thorough)' if tier else ''} | {CONST.get(k, '')} | {n(r['distinct_states'])} / {n(r['generated_states'])} | {r['wall_s']:.0f} s |"
lines = ["| cfg | constants | distinct / generated states | wall (16 cores, machine shared) |", "|---|---|---|---|"]
lines += [row(k, quick[k], False) for k in sorted(quick)]
lines += [row(k, deep[k], True) for k in sorted(deep)]
p = os.path.join(ROOT, "DESIGN.md"); s = open(p).read()
b, e = "<!-- MC-TABLE-BEGIN -->", "<!-- MC-TABLE-END -->"
assert b in s and e in s
s = s[:s.index(b) + len(b)] + "\n" + "\n".join(lines) + "\n" + s[s.index(e):]
open(p, "w").write(s)
print(len(lines) - 2, "rows")
