#!/usr/bin/env python3
"""Regenerates the table of DESIGN.md §12 from /verif/seeded/*/meta.json (text after the table is kept)."""
import json, glob, os, re
root = os.path.dirname(os.path.dirname(os.path.abspath(__file__)))
rows = []
for d in sorted(glob.glob(os.path.join(root, 'seeded', '*', 'meta.json'))):
    m = json.load(open(d))
    caught = '; '.join(m.get('caught_by', []))
    miss = '; '.join(m.get('not_caught_by', []))
    rows.append(f"| `{m['id']}` | {m['breaks_property']} | {m['what']} | {m['needs']} | {caught}" + (f" **Missed at first:** {miss}" if miss else "") + " |")
table = "| id | property | the change | needs in order to manifest | rejected by |\n|---|---|---|---|---|\n" + "\n".join(rows) + "\n"
p = os.path.join(root, 'DESIGN.md')
s = open(p).read()
a = s.index("| id | property | the change |")
b = s.index("\nWhat the misses taught")
s = s[:a] + table + s[b:]
open(p, 'w').write(s)
print(len(rows), "rows")
