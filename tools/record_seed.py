#!/usr/bin/env python3
"""tools/record_seed.py <seed-id> <property> <agent-out-dir> <json-with-fields>
Copies a confirmed seeded change into /verif/seeded/<seed-id>/ (patch.diff, demonstration, notes) and writes meta.json."""
import sys, os, shutil, json
sid, prop, src, fields = sys.argv[1], sys.argv[2], sys.argv[3], json.loads(sys.argv[4])
dst = os.path.join(os.path.dirname(os.path.dirname(os.path.abspath(__file__))), "seeded", sid)
os.makedirs(dst, exist_ok=True)
for f in os.listdir(src):
    if f == "patch.diff" or f.endswith("_test.go") or f == "notes.md":
        shutil.copy(os.path.join(src, f), os.path.join(dst, f + (".txt" if f.endswith("_test.go") else "")))
meta = {"id": sid, "breaks_property": prop}
meta.update(fields)
json.dump(meta, open(os.path.join(dst, "meta.json"), "w"), indent=1)
print("recorded", dst, sorted(os.listdir(dst)))
