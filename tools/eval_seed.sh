#!/bin/sh
# tools/eval_seed.sh <seeded/<id> directory or patch file> <check id>...
# Runs the named checks (quick tier) against a scratch worktree of /repo with the seeded change applied,
# through VERIF_REPO: /repo itself is not touched (tools/try_seed.sh is the variant that applies the
# change to /repo and reverts it). The worktree is removed afterwards.
set -u
P=$1; shift
[ -d "$P" ] && P=$P/patch.diff
P=$(readlink -f "$P")
WT=$(mktemp -d /tmp/evalseed.XXXXXX)
rmdir "$WT"
git -C /repo worktree add -q "$WT" HEAD || exit 2
trap 'git -C /repo worktree remove --force "$WT" >/dev/null 2>&1; git -C /repo worktree prune' EXIT INT TERM
git -C "$WT" apply "$P" || { echo "patch does not apply"; exit 2; }
cd "$(dirname "$0")/.." || exit 2
for c in "$@"; do
  s=$(date +%s)
  VERIF_REPO="$WT" ./check "$c" quick > "out/evalseed.$c.log" 2>&1
  rc=$?
  echo "$c exit=$rc wall=$(( $(date +%s)-s ))s: $(grep -E 'MISMATCH|spec=' "out/evalseed.$c.log" | head -2 | cut -c1-400)"
done
