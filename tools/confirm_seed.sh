#!/bin/sh
# tools/confirm_seed.sh <out-dir-with-patch.diff-and-demo> <name>
# Confirms a seeded change in a scratch worktree: builds (both tags), existing suite still at the baseline,
# demonstration fails with the change and passes without it. Prints a summary; removes the worktree.
set -u
SRC=$1; NAME=$2
G=/root/go/pkg/mod/golang.org/toolchain@v0.0.1-go1.25.11.linux-amd64/bin/go
export GOFLAGS=-mod=mod GOPROXY=off GOSUMDB=off GOTOOLCHAIN=local
WT=/tmp/cs/$NAME
mkdir -p /tmp/cs
git -C /repo worktree remove --force $WT >/dev/null 2>&1
git -C /repo worktree add -q $WT HEAD || exit 2
cd $WT || exit 2
DEMOS=$(ls $SRC | grep -E '_test\.go$')
run_demo() { # $1 = label
  for d in $DEMOS; do
    case "$d" in
      *freelist*|*internal_fl*) cp $SRC/$d internal/freelist/ ;;
      *) cp $SRC/$d . ;;
    esac
  done
  if grep -lq "^package command" $SRC/*_test.go 2>/dev/null; then
    for d in $DEMOS; do if grep -q "^package command" $SRC/$d; then rm -f ./$d; cp $SRC/$d cmd/bbolt/command/; fi; done
    $G test -vet=off -count=1 -timeout 300s -run 'Demo|Seed|ZZ|Zz' ./cmd/bbolt/command/ > /tmp/cs/$NAME.demo.$1.log 2>&1; r0=$?
    for d in $DEMOS; do rm -f cmd/bbolt/command/$d; done
    [ $r0 -eq 0 ]; return
  fi
  if grep -lq "^package freelist" $SRC/*_test.go 2>/dev/null; then
    for d in $DEMOS; do if grep -q "^package freelist" $SRC/$d; then rm -f ./$d; cp $SRC/$d internal/freelist/; fi; done
    $G test -vet=off -count=1 -timeout 300s -run 'Demo|Seed|ZZ|Zz' ./internal/freelist/ > /tmp/cs/$NAME.demo.$1.log 2>&1; r1=$?
  else r1=0; fi
  if ls ./*_test.go | xargs grep -l "Demo\|Seed\|ZZ" >/dev/null 2>&1; then
    $G test -vet=off -count=1 -timeout 300s -run 'Demo|Seed|ZZ|Zz' . >> /tmp/cs/$NAME.demo.$1.log 2>&1; r2=$?
  else r2=0; fi
  for d in $DEMOS; do rm -f ./$d internal/freelist/$d; done
  [ $r1 -eq 0 ] && [ $r2 -eq 0 ]
}
run_demo without; W=$?
git apply $SRC/patch.diff || { echo "$NAME: patch does not apply"; git -C /repo worktree remove --force $WT; exit 1; }
$G build ./... && $G build -tags verif ./... ; B=$?
run_demo with; D=$?
$G test -vet=off -count=1 -timeout 25m ./... > /tmp/cs/$NAME.suite.log 2>&1
FAILS=$(grep -E "^--- FAIL|^FAIL.|^panic" /tmp/cs/$NAME.suite.log | grep -v "tests/failpoint" | grep -vE "TestFailpoint|TestIssue72|TestTx_Rollback_Freelist" | head -5)
echo "$NAME: build=$B demo_without_change(pass expected)=$W demo_with_change(fail expected)=$D suite_unexpected_failures=[$FAILS]"
cd / && git -C /repo worktree remove --force $WT
