#!/bin/sh
# tools/try_seed.sh <patch.diff> <check ids...> : applies the change to /repo, runs the checks (quick), reverts.
set -u
P=$1; shift
cd /repo && git diff --quiet || { echo "/repo not clean"; exit 2; }
git -C /repo apply $P || { echo "patch does not apply"; exit 2; }
cd /verif
for c in "$@"; do
  s=$(date +%s)
  VERIF_SEED=${VERIF_SEED:-1} ./check $c quick > out/seedrun.$c.log 2>&1; rc=$?
  echo "$c exit=$rc wall=$(( $(date +%s)-s ))s: $(grep -A1 '^VIOLATION' out/seedrun.$c.log | grep 'scenario=' | head -2 | cut -c1-400)"
  grep '^INFRA' out/seedrun.$c.log | head -2 | cut -c1-300
done
git -C /repo checkout -- . ; git -C /repo status --short | head -3
