#!/bin/sh
# runs every check of MANIFEST.json once (tier from $1, default quick); prints one line per check
cd "$(dirname "$0")/.." || exit 2
TIER=${1:-quick}
mkdir -p out/runall
for p in $(python3 -c "import json;print(' '.join(c['property_id'] for c in json.load(open('MANIFEST.json'))['checks']))"); do
  s=$(date +%s)
  ./check $p $TIER > out/runall/$p.$TIER.log 2>&1
  rc=$?
  e=$(date +%s)
  echo "$p $TIER exit=$rc wall=$((e-s))s $(grep -c '^VIOLATION' out/runall/$p.$TIER.log) violations $(grep -c '^KNOWN-FINDING' out/runall/$p.$TIER.log) known $(grep -c '^INFRA' out/runall/$p.$TIER.log) infra"
done
