#!/usr/bin/env python3
"""Regenerates /verif/MANIFEST.json from the table below (kept in one place so that it stays valid)."""
import json, subprocess, os
ROOT = os.path.dirname(os.path.dirname(os.path.abspath(__file__)))
TB = "TLC 1.8.0 and the CommunityModules; the Go toolchain; the placement of the verif hooks (events emitted under the protecting lock); the harness' order-preserving key/value concretisation"
CHECKS = {
 "C01": ("model_checking", "TLC model check of Bolt.tla crash configs (every subset of unsynced writes + torn meta) + TLC trace validation (TraceBolt) of recorded I/O histories with every reconstructed crash image as a CrashProbe",
         "The commit protocol is model-checked exhaustively for small constants (MC_Crash*: all interleavings x every persisted subset of the unsynced writes x torn meta, both freelist-sync modes). The real code is bound to it by trace validation: every I/O call of generated histories is validated against TraceBolt (data sync before meta write, grow before writing past EOF, meta slot, allocation outside visible versions), and crash images (sector-granular persisted subsets, torn meta sector) reconstructed from the recorded I/O are opened with the real code; TLC decides from its disk model which version each image must recover to.",
         "§4 C01", "crash model: 512-byte sectors persist atomically, a completed fdatasync persists everything written before it; " + TB),
 "C02": ("model_checking", "TLC model check (MC_TxKV reader configs, Bolt MC_Isolation) + TLC trace validation (TraceKV, TraceBolt) of TLC-generated programs, randomized and truly concurrent executions",
         "Snapshot isolation is model-checked at the logical level (TxKV: ReaderStable, ReaderSeesVersion) and at the page level (Bolt: SnapshotStable, NoFreeVisible under the code's release policy, all interleavings of readers and writer steps). Executions of the real code (TLC-generated API programs, randomized histories with up to 4 readers of different ages, goroutine-concurrent drivers) are validated by TLC: every complete dump of every open reader must equal the version its txid designates, and no allocation / write / release may touch a page of a visible version.",
         "§4 C02", TB),
 "C04": ("model_checking", "TLC model check of the reference model (MC_TxKV) + TLC trace validation (TraceKV) of TLC-generated API programs and randomized histories on the real code",
         "KV.tla/TxKV.tla are the reference model (nested ordered maps with counters, documented error precedence); TLC checks them exhaustively on a small universe and generates API programs (-simulate) that are replayed on the real code under size profiles crossing every structural threshold; every return value, error and recursive dump of the real code is then checked by TLC against the model (trace validation), together with randomized histories over larger universes.",
         "§4 C04", TB),
 "C05": ("model_checking", "TLC model check of the cursor model (MC_TxKV_cursor) + TLC trace validation (TraceKV) of cursor programs on committed and dirty buckets",
         "Cursors are a sorted list with a position in KV.tla; TLC enumerates cursor programs exhaustively on small buckets and generates programs that are replayed on the real code with profiles that spread a few keys over several leaves; dedicated runs empty whole leaves inside a write transaction (middle, ends, everything) before running cursor programs; every returned key/value is checked by TLC and every call runs under a watchdog (termination).",
         "§4 C05", TB),
 "C06": ("model_checking", "TLC model check (Bolt MC_Isolation/MC_Fault) + TLC trace validation (TraceBolt) of every intercepted write of recorded executions",
         "NoOverwriteVisible is an invariant of the page-level model for all interleavings; on the real code every WriteAt (offset, length) is intercepted and TLC checks that its page range lies in pages allocated by the writing transaction, outside every visible version (page sets cross-checked against an independent decode of the file), and that meta writes go to the slot not holding the newest committed meta.",
         "§4 C06", TB + "; the independent decoder"),
 "C07": ("model_checking", "TLC model check (Bolt Partition invariant) + TLC trace validation (TraceBolt) of decoder observations after every transaction",
         "Partition is an invariant of the page-level model (also after rollback, failed commit, recovery). On the real code the file is decoded independently after every write transaction and every open; TLC compares reachable pages, freelist page and content, free/pending sets, statistics (DB.Stats as a function of the trace) and Tx.Check with the specification's sets and evaluates the partition predicate. The shape of every committed tree (BTree.tla: elements inside their page, balanced, no empty non-root leaf, branches with >= 2 children, inline buckets) is evaluated by TLC on the decoder's per-page facts, and Bucket.Stats() of every top-level bucket must equal BTree!StatsOf of the same facts.",
         "§4 C07", TB + "; the independent decoder"),
 "C08": ("fault_enumeration", "exhaustive single-fault enumeration over every I/O call of generated workloads, each run validated by TLC (TraceKV + TraceBolt); TLC model check of Bolt MC_Fault",
         "For every workload, every I/O call it issues (write, sync, truncate, file sync, mmap) is failed once (every third write as a short write), with and without readers held across the failure; TLC validates each run's API trace against TxKV (nothing visible, or for a failed final sync entirely present/absent; readers keep their snapshot; later transactions proceed) and its page-level trace against TraceBolt (free list after rollback, partition, nothing visible becomes free). MC_Fault checks the same on the model for all interleavings.",
         "§4 C08", "an injected failure returns an error without performing the call (a failed write may persist a prefix); " + TB),
 "C10": ("model_checking", "TLC model check (Bolt ReleasePolicySafe/ReleaseLive, Freelist CodePolicyAdmissible) + TLC trace validation (TraceBolt) of BeginWrite/EndWrite events",
         "Release safety and liveness are checked on the models for all reader patterns; on the real code TLC checks at every BeginWrite that the released set is safe for every registered reader and complete when none is registered, at every EndWrite the pending bound, and that the file is only extended when no free run fits; a steady overwrite workload must stop growing the file.",
         "§4 C10", TB),
}
NOT_YET = {}
def main():
    props = [json.loads(l) for l in open(os.path.join(ROOT, "properties.jsonl"))]
    hooks = subprocess.run(["git", "-C", "/repo", "log", "--format=%H %s"], capture_output=True, text=True).stdout.splitlines()
    hook_commits = [l.split()[0] for l in hooks if l.split(" ", 1)[1].startswith("verif:")]
    checks, na = [], []
    extra = json.load(open(os.path.join(ROOT, "tools", "manifest_extra.json"))) if os.path.exists(os.path.join(ROOT, "tools", "manifest_extra.json")) else {}
    built = set(extra.get("built", [])) if extra.get("built") else None
    table = dict(CHECKS); table.update({k: tuple(v) for k, v in extra.get("checks", {}).items()})
    for p in props:
        pid = p["id"]
        if pid in table and (built is None or pid in built):
            cat, tech, text, ref, note = table[pid]
            checks.append({"property_id": pid, "quick_cmd": f"./check {pid} quick", "thorough_cmd": f"./check {pid} thorough",
                           "evidence_file": f"/verif/evidence/{pid}.json", "replay_cmd_template": f"./check {pid} --replay {{path}}",
                           "engine": "tla-trace-validation", "level_claimed": {"category": cat, "text": text, "design_ref": "DESIGN.md " + ref},
                           "level_note": note, "technique": tech})
        else:
            na.append({"property_id": pid, "reason": extra.get("na", {}).get(pid, "check not built yet in this round (see DESIGN.md §8 build order); the specification-level statement exists")})
    m = {"version": 1,
         "setup_cmd": "./check build",
         "hooks": {"guard": "verif", "enable": "go build -tags verif (the harness module replaces go.etcd.io/bbolt with /repo)",
                   "baseline_off_cmd": "cd /repo && go test -mod=mod -vet=off -count=1 -timeout 25m ./...",
                   "source_commits": hook_commits, "add_only": True},
         "engines": [{"name": "tla-trace-validation", "path": "/verif/spec + /verif/harness",
                      "serves_properties": [c["property_id"] for c in checks],
                      "kind_free_text": "explicit TLA+ specifications (spec/*.tla) model-checked by TLC; conformance by trace validation of executions recorded from the real code (hooks under build tag verif) and by replay of TLC-generated behaviours"}],
         "checks": checks, "not_applicable": na,
         "notes": "Verdicts come only from behaviour of the real code in /repo's working tree; a model-only counterexample, dead driver, timeout or OOM is exit 2. Known findings: KNOWN_FINDINGS.json."}
    json.dump(m, open(os.path.join(ROOT, "MANIFEST.json"), "w"), indent=1)
    print("checks:", [c["property_id"] for c in checks], "na:", len(na))
main()
