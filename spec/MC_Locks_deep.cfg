SPECIFICATION Spec
CONSTANTS
  NT = 4
  StatsAfterUnlock = FALSE
  TrackStats = FALSE
  MaxOps = 2
INVARIANTS StatsFresh OneWriter NoRemapUnderReaders MetaExclusive
PROPERTIES AllReturn
CHECK_DEADLOCK TRUE
