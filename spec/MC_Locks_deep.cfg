SPECIFICATION Spec
CONSTANTS
  NT = 4
  MaxOps = 2
INVARIANTS OneWriter NoRemapUnderReaders MetaExclusive
PROPERTIES AllReturn
CHECK_DEADLOCK TRUE
