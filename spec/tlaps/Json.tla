---- MODULE Json ----
\* stub for the proof system only (the real module comes from the CommunityModules)
ToJson(x) == ""
ndJsonDeserialize(f) == <<>>
====
