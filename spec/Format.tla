------------------------------- MODULE Format -------------------------------
(***************************************************************************)
(* The published version-2 on-disk layout of bbolt as DECODING OPERATORS   *)
(* over a byte sequence (C11, C12) and the accounting predicate over the   *)
(* decoded page graph (C07, C19, C20).  TLC *evaluates* these operators on *)
(* the bytes of files written by the real code (EvalFormat.tla).           *)
(*                                                                         *)
(* All integers little-endian.                                             *)
(*   page header (16)  id u64 | flags u16 | count u16 | overflow u32       *)
(*   flags             1 branch, 2 leaf, 4 meta, 16 freelist               *)
(*   meta (64, at +16) magic u32 = ED0CDAED | version u32 = 2 | pageSize   *)
(*                     u32 | flags u32 | root pgid u64 | root sequence u64 *)
(*                     | freelist pgid u64 (all FF = none) | pgid u64 (hwm)*)
(*                     | txid u64 | checksum u64 = FNV-1a-64(first 56)     *)
(*   branch elem (16)  pos u32 | ksize u32 | pgid u64   (key at elem+pos)  *)
(*   leaf elem (16)    flags u32 (1 = bucket) | pos u32 | ksize u32 |      *)
(*                     vsize u32             (key at elem+pos, then value) *)
(*   bucket value      root pgid u64 | sequence u64 | inline page if root=0*)
(*   freelist page     count ids u64; count = 0xFFFF: first u64 = count    *)
(* TLC integers are 32 bit: 64-bit fields are read as "low 4 bytes, high   *)
(* bytes must be zero" (-1 otherwise), which holds for every file the      *)
(* checks produce.                                                         *)
(***************************************************************************)
EXTENDS Integers, Sequences, FiniteSets, Bitwise, TLC

\* f = [b |-> byte tuple (1-indexed), ps |-> page size]
Byte(f, off) == f.b[off + 1]
RECURSIVE ULE(_, _, _)
ULE(f, off, n) == IF n = 0 THEN 0 ELSE Byte(f, off) + 256 * ULE(f, off + 1, n - 1)
U16(f, off) == ULE(f, off, 2)
U32(f, off) == IF Byte(f, off + 3) < 128 THEN ULE(f, off, 4) ELSE -1
HiZero(f, off) == \A i \in 4..7 : Byte(f, off + i) = 0
AllFF(f, off) == \A i \in 0..7 : Byte(f, off + i) = 255
U64(f, off) == IF HiZero(f, off) THEN U32(f, off) ELSE -1
Bytes(f, off, n) == [i \in 1..n |-> Byte(f, off + i - 1)]
Len8(f) == Len(f.b)

\* ---------------------------------------------------------------- FNV-1a 64 on 8-byte little-endian arrays
RECURSIVE Mul435(_, _, _, _)
Mul435(x, i, carry, acc) == IF i > 8 THEN acc ELSE LET v == x[i] * 435 + carry IN Mul435(x, i + 1, v \div 256, Append(acc, v % 256))
Shl40(x) == <<0, 0, 0, 0, 0, x[1], x[2], x[3]>>
RECURSIVE Add8(_, _, _, _, _)
Add8(a, b, i, carry, acc) == IF i > 8 THEN acc ELSE LET v == a[i] + b[i] + carry IN Add8(a, b, i + 1, v \div 256, Append(acc, v % 256))
MulPrime(x) == Add8(Mul435(x, 1, 0, <<>>), Shl40(x), 1, 0, <<>>)      \* x * 0x100000001b3  (= x*435 + x<<40) mod 2^64
FnvBasis == <<37, 35, 34, 132, 228, 156, 242, 203>>                    \* 0xcbf29ce484222325
RECURSIVE Fnv(_, _, _, _)
Fnv(f, off, n, h) == IF n = 0 THEN h ELSE Fnv(f, off + 1, n - 1, MulPrime([h EXCEPT ![1] = h[1] ^^ Byte(f, off)]))

\* ---------------------------------------------------------------- meta pages (C11)
MetaAt(f, pgoff) == LET m == pgoff + 16 IN
  IF pgoff + 80 > Len8(f) THEN [valid |-> FALSE, why |-> "short", txid |-> -1, root |-> -1, seq |-> -1, freelist |-> -1, hwm |-> -1, pageSize |-> -1]
  ELSE LET magicOK == Bytes(f, m, 4) = <<237, 218, 12, 237>>
           versionOK == Bytes(f, m + 4, 4) = <<2, 0, 0, 0>>
           sumOK == Bytes(f, m + 56, 8) = Fnv(f, m, 56, FnvBasis)
       IN [valid |-> magicOK /\ versionOK /\ sumOK,
           why |-> IF ~magicOK THEN "magic" ELSE IF ~versionOK THEN "version" ELSE IF ~sumOK THEN "checksum" ELSE "ok",
           pageSize |-> U32(f, m + 8), root |-> U64(f, m + 16), seq |-> U64(f, m + 24),
           freelist |-> IF AllFF(f, m + 32) THEN -1 ELSE U64(f, m + 32), hwm |-> U64(f, m + 40), txid |-> U64(f, m + 48)]
\* Open must use the valid meta with the larger txid (db.go:538-552, 1141-1162)
ChooseMeta(m0, m1) == IF m0.valid /\ m1.valid THEN (IF m1.txid > m0.txid THEN 1 ELSE 0)
                      ELSE IF m0.valid THEN 0 ELSE IF m1.valid THEN 1 ELSE -1

\* ---------------------------------------------------------------- pages
PgOff(f, id) == id * f.ps
PFlags(f, o) == U16(f, o + 8)
PCount(f, o) == U16(f, o + 10)
POverflow(f, o) == U32(f, o + 12)
LeafElem(f, o, i) == LET e == o + 16 + 16 * i
                         pos == U32(f, e + 4) ks == U32(f, e + 8) vs == U32(f, e + 12)
                     IN [flags |-> U32(f, e), koff |-> e + pos, ks |-> ks, voff |-> e + pos + ks, vs |-> vs]
BranchElem(f, o, i) == LET e == o + 16 + 16 * i IN [koff |-> e + U32(f, e), ks |-> U32(f, e + 4), pgid |-> U64(f, e + 8)]

\* all leaf elements below the page at offset o, in order
RECURSIVE LeafItems(_, _)
LeafItems(f, o) == IF PFlags(f, o) = 2 THEN [i \in 1..PCount(f, o) |-> LeafElem(f, o, i - 1)]
                   ELSE LET RECURSIVE cat(_)
                            cat(i) == IF i >= PCount(f, o) THEN <<>> ELSE LeafItems(f, PgOff(f, BranchElem(f, o, i).pgid)) \o cat(i + 1)
                        IN cat(0)
\* pages (with overflow) of the tree rooted at page id, as a SEQUENCE (duplicates = double references)
RECURSIVE PagesOf(_, _)
PagesOf(f, id) == LET o == PgOff(f, id)
                      self == [j \in 1..(POverflow(f, o) + 1) |-> id + j - 1]
                  IN IF PFlags(f, o) = 2 THEN self
                     ELSE LET RECURSIVE cat(_)
                              cat(i) == IF i >= PCount(f, o) THEN <<>> ELSE PagesOf(f, BranchElem(f, o, i).pgid) \o cat(i + 1)
                          IN self \o cat(0)
\* a key is summarised by (length, 2-byte big-endian id prefix); a value by (length, 4-byte big-endian id)
KeySum(f, off, n) == <<n, IF n >= 2 THEN 256 * Byte(f, off) + Byte(f, off + 1) ELSE -1>>
ValSum(f, off, n) == <<n, IF n >= 4 THEN ((Byte(f, off) * 256 + Byte(f, off + 1)) * 256 + Byte(f, off + 2)) * 256 + Byte(f, off + 3) ELSE -1>>
\* bucket header at offset h: the logical content
RECURSIVE Bucket(_, _)
Bucket(f, h) == LET root == U64(f, h)
                    items == IF root = 0 THEN LeafItems(f, h + 16) ELSE LeafItems(f, PgOff(f, root))
                IN [seq |-> U64(f, h + 8), inline |-> root = 0,
                    ents |-> [i \in 1..Len(items) |->
                       LET it == items[i] IN
                       IF it.flags = 1 THEN [k |-> KeySum(f, it.koff, it.ks), t |-> "b", b |-> Bucket(f, it.voff), v |-> <<0, 0>>]
                       ELSE [k |-> KeySum(f, it.koff, it.ks), t |-> "v", v |-> ValSum(f, it.voff, it.vs), b |-> <<>>]]]
RECURSIVE BucketPages(_, _)
BucketPages(f, h) == LET root == U64(f, h)
                         items == IF root = 0 THEN LeafItems(f, h + 16) ELSE LeafItems(f, PgOff(f, root))
                         own == IF root = 0 THEN <<>> ELSE PagesOf(f, root)
                         subs == {j \in 1..Len(items) : items[j].flags = 1}
                         RECURSIVE cat(_)
                         cat(S) == IF S = {} THEN <<>> ELSE LET j == CHOOSE x \in S : TRUE IN BucketPages(f, items[j].voff) \o cat(S \ {j})
                     IN own \o cat(subs)
\* the page ids at which a tree page STARTS (PagesOf without the overflow continuation pages)
RECURSIVE StartsOf(_, _)
StartsOf(f, id) == LET o == PgOff(f, id) IN
                   IF PFlags(f, o) = 2 THEN <<id>>
                   ELSE LET RECURSIVE cat(_)
                            cat(i) == IF i >= PCount(f, o) THEN <<>> ELSE StartsOf(f, BranchElem(f, o, i).pgid) \o cat(i + 1)
                        IN <<id>> \o cat(0)
RECURSIVE BucketStarts(_, _)
BucketStarts(f, h) == LET root == U64(f, h)
                          items == IF root = 0 THEN LeafItems(f, h + 16) ELSE LeafItems(f, PgOff(f, root))
                          own == IF root = 0 THEN <<>> ELSE StartsOf(f, root)
                          subs == {j \in 1..Len(items) : items[j].flags = 1}
                          RECURSIVE cat(_)
                          cat(S) == IF S = {} THEN <<>> ELSE LET j == CHOOSE x \in S : TRUE IN BucketStarts(f, items[j].voff) \o cat(S \ {j})
                      IN own \o cat(subs)
TypeName(flags) == CASE flags = 1 -> "branch" [] flags = 2 -> "leaf" [] flags = 4 -> "meta" [] flags = 16 -> "freelist" [] OTHER -> "unknown"
\* free ids listed by the freelist page at page id fl (with the 0xFFFF count convention)
FreelistIds(f, fl) == LET o == PgOff(f, fl)
                          c == PCount(f, o)
                          n == IF c = 65535 THEN U64(f, o + 16) ELSE c
                          first == IF c = 65535 THEN 1 ELSE 0
                      IN [i \in 1..n |-> U64(f, o + 16 + 8 * (first + i - 1))]
FreelistRun(f, fl) == {fl + j : j \in 0..POverflow(f, PgOff(f, fl))}

\* the complete decode of a file
Decode(f) ==
   LET m0 == MetaAt(f, 0) m1 == MetaAt(f, f.ps)
       a == ChooseMeta(m0, m1)
   IN IF a = -1 THEN [ok |-> FALSE]
      ELSE LET m == IF a = 0 THEN m0 ELSE m1
               h == a * f.ps + 16 + 16                 \* root bucket header inside the active meta
               pages == BucketPages(f, h)
           IN [ok |-> TRUE, active |-> a, txid |-> m.txid, hwm |-> m.hwm, freelist |-> m.freelist,
               root |-> Bucket(f, h), pages |-> pages, starts |-> BucketStarts(f, h),
               free |-> IF m.freelist = -1 THEN <<>> ELSE FreelistIds(f, m.freelist),
               flrun |-> IF m.freelist = -1 THEN {} ELSE FreelistRun(f, m.freelist)]

\* Tx.Page(id) (tx.go:691-718), the page-inspection API (also `bbolt pages`): nothing beyond the high-water mark;
\* "free" for every id the free list holds (the listed ids, or - for a file without a freelist page - everything
\* unreachable); otherwise type, element count and overflow as the header of that page says.  For the
\* continuation pages of an overflowing page the API reads whatever bytes are there: not specified.
PageInfoOK(f, d, q) ==
   LET freeSet == IF d.freelist = -1 THEN (2..(d.hwm - 1)) \ {d.pages[i] : i \in 1..Len(d.pages)} ELSE {d.free[i] : i \in 1..Len(d.free)}
       starts == {0, 1} \cup {d.starts[i] : i \in 1..Len(d.starts)} \cup (IF d.freelist = -1 THEN {} ELSE {d.freelist})
       o == PgOff(f, q.id)
   IN IF q.id >= d.hwm THEN q.type = "none"
      ELSE IF q.id \in freeSet THEN q.type = "free"
      ELSE IF q.id \in starts THEN q.type = TypeName(PFlags(f, o)) /\ q.count = PCount(f, o) /\ q.ov = POverflow(f, o)
      ELSE q.type # "none"

\* `bbolt pages` (cmd/bbolt/command/command_pages.go): one row per page START below the high-water mark - the two meta
\* pages, the freelist page, every tree page, every free page - in ascending order (continuation pages of an
\* overflowing page are skipped), each with the type / item count / overflow Tx.Page reports; count and overflow are
\* blank (-1 / 0) for free pages.
PagesTableIds(d) ==
   LET freeSet == IF d.freelist = -1 THEN (2..(d.hwm - 1)) \ {d.pages[i] : i \in 1..Len(d.pages)} ELSE {d.free[i] : i \in 1..Len(d.free)}
   IN {0, 1} \cup {d.starts[i] : i \in 1..Len(d.starts)} \cup (IF d.freelist = -1 THEN {} ELSE {d.freelist}) \cup freeSet
PagesRowOK(f, d, r) ==
   LET freeSet == IF d.freelist = -1 THEN (2..(d.hwm - 1)) \ {d.pages[i] : i \in 1..Len(d.pages)} ELSE {d.free[i] : i \in 1..Len(d.free)}
       o == PgOff(f, r.id)
   IN IF r.id \in freeSet THEN r.type = "free" /\ r.items = -1 /\ r.ov = 0
      ELSE r.type = TypeName(PFlags(f, o)) /\ r.items = PCount(f, o) /\ r.ov = POverflow(f, o)

(***************************************************************************)
(* The accounting predicate (C07 / C19): g is a page graph                 *)
(*   [hwm, reach (sequence of reachable page ids, one entry per reference),*)
(*    free (sequence of ids as listed), fl (set, the freelist page run),   *)
(*    hasfl, badtype (pages of invalid type reached), disorder (number of  *)
(*    key-order violations)]                                               *)
(***************************************************************************)
SeqSet(s) == {s[i] : i \in 1..Len(s)}
Consistent(g) ==
   LET R == SeqSet(g.reach) F == SeqSet(g.free) IN
   /\ Len(g.reach) = Cardinality(R)                         \* no page referenced twice
   /\ Len(g.free) = Cardinality(F)                          \* no page freed twice
   /\ R \cap F = {}                                         \* no page reachable and free
   /\ g.fl \cap (R \cup F) = {}
   /\ \A p \in R \cup F : p >= 2 /\ p < g.hwm
   /\ (g.hasfl => (2..(g.hwm - 1)) = R \cup F \cup g.fl)    \* no page unreachable and unfreed
   /\ g.badtype = 0 /\ g.disorder = 0
=============================================================================
