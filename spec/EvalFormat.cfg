SPECIFICATION ESpec
CONSTRAINT HighWater
POSTCONDITION Accepted
CHECK_DEADLOCK FALSE
