-------------------------------- MODULE Lock --------------------------------
(***************************************************************************)
(* C17: the advisory lock on the data file (bolt_unix.go:17-52, db.go:     *)
(* 246-257).  Actors (processes, or several opens inside one process) open *)
(* the same file read-write (exclusive lock) or read-only (shared lock)    *)
(* with a timeout, and close it.  An open succeeds iff it is compatible    *)
(* with the current holders; otherwise it reports ErrTimeout (with a zero  *)
(* timeout it would wait: only issued when it can succeed).                *)
(***************************************************************************)
EXTENDS Integers, Sequences, FiniteSets, TLC
LOCAL INSTANCE Json
CONSTANTS NA, MaxSteps, EmitDepth
A == 1..NA
VARIABLES held, hist, last     \* held[a] \in {"none", "rw", "ro"}
vars == <<held, hist, last>>
Compatible(h, a, mode) == IF mode = "rw" THEN \A b \in A \ {a} : h[b] = "none"
                          ELSE \A b \in A \ {a} : h[b] # "rw"
OpenResult(h, a, mode) == IF Compatible(h, a, mode) THEN "ok" ELSE "ErrTimeout"
Init == held = [a \in A |-> "none"] /\ hist = <<>> /\ last = "none"
Open(a, mode, timed) ==
   /\ held[a] = "none" /\ Len(hist) < MaxSteps
   /\ (timed \/ Compatible(held, a, mode))
   /\ last' = OpenResult(held, a, mode)
   /\ held' = IF last' = "ok" THEN [held EXCEPT ![a] = mode] ELSE held
   /\ hist' = Append(hist, [op |-> "open", a |-> a, mode |-> mode, timed |-> timed, res |-> last'])
\* An open that takes the lock and then fails half-way (db.go:260-330: stat / init / page-size detection / mmap
\* error -> db.close()) must leave nothing behind: no holder, so later opens behave as if it never happened.
\* If the lock is not available it times out like any other open.
OpenFail(a, mode) ==
   /\ held[a] = "none" /\ Len(hist) < MaxSteps
   /\ last' = (IF Compatible(held, a, mode) THEN "fail" ELSE "ErrTimeout")
   /\ held' = held
   /\ hist' = Append(hist, [op |-> "openfail", a |-> a, mode |-> mode, timed |-> TRUE, res |-> last'])
Close(a) == /\ held[a] # "none" /\ Len(hist) < MaxSteps /\ held' = [held EXCEPT ![a] = "none"] /\ last' = "ok"
            /\ hist' = Append(hist, [op |-> "close", a |-> a, mode |-> held[a], timed |-> FALSE, res |-> "ok"])
Next == \E a \in A : Close(a) \/ (\E mode \in {"rw", "ro"}, timed \in BOOLEAN : Open(a, mode, timed)) \/ (\E mode \in {"rw", "ro"} : OpenFail(a, mode))
Spec == Init /\ [][Next]_vars
\* a read-write holder excludes everyone else; read-only holders coexist
Exclusion == \A a, b \in A : (a # b /\ held[a] = "rw") => held[b] = "none"
View == held
Emit == (EmitDepth = 0) \/ (TLCGet("level") < EmitDepth) \/ PrintT(<<"BEH", TLCGet("stats").traces, ToJson(hist)>>)
=============================================================================
