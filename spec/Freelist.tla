------------------------------ MODULE Freelist ------------------------------
(***************************************************************************)
(* L2a: the contract of the free-page allocator (internal/freelist), the   *)
(* same for the array and the hash-map backend (C09), and the reclamation  *)
(* rule of C10.  Strictness equals the property, not the implementation:   *)
(*   Allocate(n) may return ANY run of n free pages (array: the lowest,    *)
(*     hash map: any) and returns 0 iff no run exists;                     *)
(*   ReleasePending may release ANY set of pending pages that no           *)
(*     registered reader can reach, and must release all of them when no   *)
(*     reader is registered.                                               *)
(* State transformers are pure operators on a record                       *)
(*   st = [free, pend, allocs, readers]                                    *)
(* so that TraceFreelist applies them to logged arguments.                 *)
(* Anchors: shared.go:56-311, array.go:21-99, hashmap.go:61-248.           *)
(***************************************************************************)
EXTENDS BoltOps
LOCAL INSTANCE Json
LOCAL INSTANCE Functions

\* st.allocs : page (run start) -> allocating txid ; st.readers : bag of reader txids
St0(ids) == [free |-> ids, pend |-> {}, allocs |-> <<>>, readers |-> <<>>]
PP(st) == PendPages(st.pend)
InUse(st, p) == p \notin st.free /\ p \notin PP(st)

\* --- Allocate(txid, n) = s  (0: none)
AllocOK(st, n, s) == IF s = 0 THEN ~HasRun(st.free, n) ELSE s >= 2 /\ Run(s, n) \subseteq st.free
DoAlloc(st, t, n, s) == IF s = 0 THEN st
                        ELSE [st EXCEPT !.free = @ \ Run(s, n),
                                        !.allocs = [q \in (DOMAIN @) \cup {s} |-> IF q = s THEN t ELSE @[q]]]
\* --- Free(txid, p, overflow)
FreePre(st, t, p, ov) == /\ p >= 2 /\ \A q \in Run(p, ov + 1) : InUse(st, q)
                         /\ ~(p \in DOMAIN st.allocs /\ st.allocs[p] = t)
DoFree(st, t, p, ov) == LET a == IF p \in DOMAIN st.allocs THEN st.allocs[p] ELSE 0 IN
                        [st EXCEPT !.pend = @ \cup {<<t, q, a>> : q \in Run(p, ov + 1)},
                                   !.allocs = [q \in (DOMAIN @) \ {p} |-> @[q]]]
\* --- Rollback(txid): drop the tx's pending records, restore the allocation marks of the pages it
\*     freed, forget the marks of the pages it allocated (those pages are NOT returned here: the
\*     database always reloads the free list afterwards, tx.go:323-343)
DoRollback(st, t) ==
   LET mine == {r \in st.pend : r[1] = t}
       keep == {q \in DOMAIN st.allocs : st.allocs[q] # t}
       back == {r \in mine : r[3] # 0}
   IN IF mine = {} THEN st          \* shared.go:91-94: nothing pending for t -> nothing is touched (not even t's marks)
      ELSE [st EXCEPT !.pend = @ \ mine,
                      \* every page of a freed run gets the run's mark back (overwriting a mark it may carry itself)
                      !.allocs = [q \in keep \cup {r[2] : r \in back} |->
                                    IF q \in {r[2] : r \in back} THEN (CHOOSE r \in back : r[2] = q)[3] ELSE st.allocs[q]]]
\* --- readers
DoAddReader(st, t) == [st EXCEPT !.readers = Inc(@, t)]
DoRemoveReader(st, t) == [st EXCEPT !.readers = Dec(@, t)]
\* --- ReleasePending: S = the released records
ReleaseOK(st, S) == /\ S \subseteq st.pend
                    /\ \A r \in S : ReleaseSafe(r, st.readers)
                    /\ (RTx(st.readers) = {} => S = st.pend)
DoRelease(st, S) == [st EXCEPT !.pend = @ \ S, !.free = @ \cup PendPages(S)]
\* --- serialisation: the page lists free + pending ids, sorted
Image(st) == st.free \cup PP(st)
CountField(n) == IF n < 65535 THEN n ELSE 65535
\* Reload(page) / NoSyncReload(ids): free := listed ids minus what is pending now
DoReload(st, ids) == [st EXCEPT !.free = ids \ PP(st)]

\* the code's own release policy (shared.go:141-205), one admissible choice
MinR(st) == LET rt == RTx(st.readers) IN IF rt = {} THEN 1000000 ELSE CHOOSE t \in rt : \A u \in rt : t <= u
InGap(st, x) == LET rt == RTx(st.readers) IN
                IF x <= MinR(st) THEN -1 ELSE
                LET below == {t \in rt : t < x} IN IF x \in rt THEN -1 ELSE (CHOOSE t \in below : \A u \in below : u <= t) + 1
CodeReleases(st) == {r \in st.pend : \/ r[1] <= MinR(st) - 1
                                     \/ (InGap(st, r[1]) # -1 /\ r[3] # 0 /\ InGap(st, r[3]) = InGap(st, r[1]))}

(***************************************************************************)
(* Closed model for TLC.                                                   *)
(***************************************************************************)
CONSTANTS MaxPage, MaxTxid, MaxRun, MaxReaders
VARIABLES st, wtx, hist
flvars == <<st, wtx, hist>>
Pages == 2..MaxPage
NR(s) == FoldFunction(LAMBDA a, b : a + b, 0, s.readers)      \* number of registered readers (no RECURSIVE: the proof system loads this module)

FLInit == \E ids \in SUBSET Pages : st = St0(ids) /\ wtx = 1 /\ hist = <<[op |-> "Init", ids |-> ids]>>
Log(e) == hist' = Append(hist, e)
\* the current writer allocates / frees; NextTx = commit (the next writer has the next id)
Allocate(n) == \E s \in {0} \cup Pages : /\ AllocOK(st, n, s) /\ st' = DoAlloc(st, wtx, n, s) /\ wtx' = wtx
                                        /\ Log([op |-> "Allocate", n |-> n])
Free(p, ov) == /\ p + ov <= MaxPage /\ FreePre(st, wtx, p, ov) /\ st' = DoFree(st, wtx, p, ov) /\ wtx' = wtx
               /\ Log([op |-> "Free", p |-> p, ov |-> ov])
Rollback == /\ st' = DoRollback(st, wtx) /\ wtx' = wtx /\ Log([op |-> "Rollback"])
NextTx == /\ wtx < MaxTxid /\ wtx' = wtx + 1 /\ st' = st /\ Log([op |-> "NextTx"])
AddReader == /\ NR(st) < MaxReaders /\ \E t \in 1..wtx : st' = DoAddReader(st, t) /\ Log([op |-> "AddReader", t |-> t]) /\ wtx' = wtx
RemoveReader == \E t \in RTx(st.readers) : st' = DoRemoveReader(st, t) /\ wtx' = wtx /\ Log([op |-> "RemoveReader", t |-> t])
\* any admissible release (the contract), not only the code's
Release == \E S \in SUBSET st.pend : /\ ReleaseOK(st, S) /\ st' = DoRelease(st, S) /\ wtx' = wtx /\ Log([op |-> "Release"])
\* Write, then Read into a fresh allocator (what Close + Open does)
WriteRead == /\ RTx(st.readers) = {} /\ st' = St0(Image(st)) /\ wtx' = wtx /\ Log([op |-> "WriteRead"])
Reload == /\ st' = DoReload(st, Image(st)) /\ wtx' = wtx /\ Log([op |-> "Reload"])

FLNext == (\E n \in 1..MaxRun : Allocate(n)) \/ (\E p \in Pages, ov \in 0..(MaxRun - 1) : Free(p, ov))
          \/ Rollback \/ NextTx \/ AddReader \/ RemoveReader \/ Release \/ WriteRead \/ Reload
FLSpec == FLInit /\ [][FLNext]_flvars
FLView == <<st, wtx>>

\* --- properties of the contract itself
Disjoint == st.free \cap PP(st) = {}
NoMetaPages == \A p \in st.free \cup PP(st) : p >= 2
OnePendingRecordPerPage == Cardinality(PP(st)) = Cardinality(st.pend)
\* the code's policy is an admissible choice, in every reachable state
CodePolicyAdmissible == ReleaseOK(st, CodeReleases(st))
\* nothing a registered reader can reach ever becomes free by a release
ReleaseNeverUnsafe == [][(hist' # hist /\ hist'[Len(hist')].op = "Release") => \A r \in st.pend \ st'.pend : ReleaseSafe(r, st.readers)]_flvars
\* Allocate hands out only free pages, never 0 / 1
AllocSound == [][\A p \in st.free \ st'.free : p >= 2]_flvars
EmitFL(d) == (TLCGet("level") < d) \/ PrintT(<<"BEH", TLCGet("stats").traces, ToJson(hist)>>)
EmitInv == EmitFL(40)
=============================================================================
