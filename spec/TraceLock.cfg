SPECIFICATION Spec
CONSTANT NA = 3
CONSTRAINT HighWater
POSTCONDITION Accepted
CHECK_DEADLOCK FALSE
