SPECIFICATION Spec
CONSTANTS
  MaxPg = 8
  MaxTx = 5
  MaxReaders = 2
  NoFLSync = FALSE
  EnableCrash = FALSE
  EnableFault = TRUE
  MaxDirty = 2
INVARIANTS SnapshotStable NewestIntact FreeDisjoint NoFreeVisible Partition
PROPERTIES ReleasePolicySafe ReleaseLive
CHECK_DEADLOCK FALSE
