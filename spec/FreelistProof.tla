--------------------------- MODULE FreelistProof ---------------------------
(***************************************************************************)
(* Machine-checked (TLAPS) proof that the allocator contract of            *)
(* Freelist.tla keeps the free set and the pending pages disjoint, never   *)
(* contains a meta page and holds at most one pending record per page -    *)
(* for EVERY value of the constants (page universe, transaction ids, run   *)
(* lengths, readers): the unbounded counterpart of what TLC checks on      *)
(* MC_Freelist / MC_Freelist_deep.                                         *)
(***************************************************************************)
EXTENDS Freelist, TLAPS

Uniq(P) == \A r1, r2 \in P : r1[2] = r2[2] => r1 = r2
IsRec(s) == s = [free |-> s.free, pend |-> s.pend, allocs |-> s.allocs, readers |-> s.readers]
Good(s) == /\ IsRec(s)
           /\ s.free \cap PendPages(s.pend) = {}
           /\ \A p \in s.free \cup PendPages(s.pend) : p >= 2
           /\ Uniq(s.pend)
           /\ s.free \subseteq Int
           /\ \A r \in s.pend : r = <<r[1], r[2], r[3]>> /\ r[2] \in Int
Inv == Good(st)

LEMMA InitGood == \A ids \in SUBSET (2..MaxPage) : Good(St0(ids))
  BY DEF Good, IsRec, St0, PendPages, Uniq

LEMMA AllocGood == \A s, t, n, a : Good(s) => Good(DoAlloc(s, t, n, a))
  BY DEF Good, IsRec, DoAlloc, PendPages, Uniq, Run

LEMMA FreeGood == \A s, t, p, ov : Good(s) /\ p \in Int /\ ov \in Int /\ FreePre(s, t, p, ov) => Good(DoFree(s, t, p, ov))
<1> SUFFICES ASSUME NEW s, NEW t, NEW p \in Int, NEW ov \in Int, Good(s), FreePre(s, t, p, ov)
             PROVE Good(DoFree(s, t, p, ov))
  OBVIOUS
<1> DEFINE a == IF p \in DOMAIN s.allocs THEN s.allocs[p] ELSE 0
           R == Run(p, ov + 1)
           N == {<<t, q, a>> : q \in R}
           s2 == DoFree(s, t, p, ov)
<1>1. IsRec(s2) /\ s2.free = s.free /\ s2.pend = s.pend \cup N
  BY DEF Good, IsRec, DoFree
<1>2. PendPages(N) = R /\ PendPages(s.pend \cup N) = PendPages(s.pend) \cup R
  BY DEF PendPages
<1>3. R \cap s.free = {} /\ R \cap PendPages(s.pend) = {} /\ R \subseteq Int /\ \A q \in R : q >= 2
  BY DEF FreePre, InUse, PP, Run
<1>4. Uniq(s.pend \cup N)
  <2>1. \A r \in N : r[2] \in R /\ r = <<t, r[2], a>>
    OBVIOUS
  <2>2. \A r \in s.pend : r[2] \notin R
    BY <1>3 DEF PendPages
  <2> QED BY <2>1, <2>2 DEF Good, Uniq
<1>5. \A r \in s.pend \cup N : r = <<r[1], r[2], r[3]>> /\ r[2] \in Int
  BY <1>3 DEF Good
<1> QED BY <1>1, <1>2, <1>3, <1>4, <1>5 DEF Good

LEMMA RollbackGood == \A s, t : Good(s) => Good(DoRollback(s, t))
  BY DEF Good, IsRec, DoRollback, PendPages, Uniq

LEMMA ReaderGood == \A s, t : Good(s) => Good(DoAddReader(s, t)) /\ Good(DoRemoveReader(s, t))
  BY DEF Good, IsRec, DoAddReader, DoRemoveReader, PendPages, Uniq

LEMMA ReleaseGood == \A s, S : Good(s) /\ S \subseteq s.pend => Good(DoRelease(s, S))
  BY DEF Good, IsRec, DoRelease, PendPages, Uniq

LEMMA ReloadGood == \A s, ids : Good(s) /\ ids \subseteq Int /\ (\A p \in ids : p >= 2) => Good(DoReload(s, ids))
  BY DEF Good, IsRec, DoReload, PP, PendPages, Uniq

LEMMA ImageGood == \A s : Good(s) => Good(St0(Image(s)))
  BY DEF Good, IsRec, St0, Image, PP, PendPages, Uniq

THEOREM Safety == FLSpec => []Inv
<1>1. FLInit => Inv
  BY InitGood DEF FLInit, Inv, Pages
<1>2. Inv /\ [FLNext]_flvars => Inv'
  <2> SUFFICES ASSUME Inv, [FLNext]_flvars PROVE Inv'
    OBVIOUS
  <2>1. CASE \E n \in 1..MaxRun : Allocate(n)
    BY <2>1, AllocGood DEF Allocate, Inv
  <2>2. CASE \E p \in Pages, ov \in 0..(MaxRun - 1) : Free(p, ov)
    BY <2>2, FreeGood DEF Free, Inv, Pages
  <2>3. CASE Rollback
    BY <2>3, RollbackGood DEF Rollback, Inv
  <2>4. CASE NextTx
    BY <2>4 DEF NextTx, Inv
  <2>5. CASE AddReader
    BY <2>5, ReaderGood DEF AddReader, Inv
  <2>6. CASE RemoveReader
    BY <2>6, ReaderGood DEF RemoveReader, Inv
  <2>7. CASE Release
    BY <2>7, ReleaseGood DEF Release, Inv, ReleaseOK
  <2>8. CASE WriteRead
    BY <2>8, ImageGood DEF WriteRead, Inv
  <2>9. CASE Reload
    <3>1. Image(st) \subseteq Int /\ \A p \in Image(st) : p >= 2
      BY DEF Inv, Good, Image, PP, PendPages
    <3> QED BY <2>9, <3>1, ReloadGood DEF Reload, Inv
  <2>10. CASE UNCHANGED flvars
    BY <2>10 DEF flvars, Inv
  <2> QED BY <2>1, <2>2, <2>3, <2>4, <2>5, <2>6, <2>7, <2>8, <2>9, <2>10 DEF FLNext
<1> QED BY <1>1, <1>2, PTL DEF FLSpec

\* the properties TLC checks on the bounded model follow
THEOREM FLSpec => [](Disjoint /\ NoMetaPages)
<1>1. Inv => Disjoint /\ NoMetaPages
  BY DEF Inv, Good, Disjoint, NoMetaPages, PP
<1> QED BY <1>1, Safety, PTL
=============================================================================
