------------------------------ MODULE BoltOps ------------------------------
(***************************************************************************)
(* L2: pure operators of the page-level engine, shared by the model        *)
(* (Bolt.tla, checked exhaustively by TLC) and by the trace specification  *)
(* (TraceBolt.tla, which applies them to the arguments logged by the real  *)
(* code).  One source of truth for the page-level meaning of C01, C02,     *)
(* C06, C07, C08, C09 (allocation), C10, C13.                              *)
(*                                                                         *)
(* A pending record is <<f, p, a>>: page p was freed by transaction f and  *)
(* had been allocated by transaction a (0 = unknown / before this open).   *)
(* `readers` maps a txid to the number of open read transactions on it.    *)
(***************************************************************************)
EXTENDS Integers, FiniteSets, Sequences, TLC

Run(s, n) == s..(s + n - 1)
ToSet(s) == {s[i] : i \in 1..Len(s)}
PendPages(pend) == {r[2] : r \in pend}

RTx(readers) == {t \in DOMAIN readers : readers[t] > 0}
Inc(f, t) == [x \in (DOMAIN f) \cup {t} |-> IF x = t THEN (IF t \in DOMAIN f THEN f[t] + 1 ELSE 1) ELSE f[x]]
Dec(f, t) == [f EXCEPT ![t] = @ - 1]

(* C10 / C02 / C06 -- when may a pending page become allocatable?            *)
(* A reader on version t can reach page p freed by f and allocated by a iff *)
(* p was live in version t: a <= t < f.  (a = 0: allocated long ago.)       *)
NeededBy(r, t) == IF r[3] = 0 THEN t < r[1] ELSE r[3] <= t /\ t < r[1]
ReleaseSafe(r, readers) == \A t \in RTx(readers) : ~NeededBy(r, t)

(* C09 -- allocation contract *)
HasRun(fr, n) == \E s \in fr : Run(s, n) \subseteq fr

(* C07 -- every page below the high-water mark is accounted for exactly once.
   tree / flp are page sets of the current version, free the allocatable ids,
   pp the pending page ids. *)
PartitionOK(hwm, tr, fl, fr, pp) ==
   /\ (2..(hwm - 1)) = tr \cup fl \cup fr \cup pp
   /\ tr \cap fl = {} /\ tr \cap fr = {} /\ tr \cap pp = {}
   /\ fl \cap fr = {} /\ fl \cap pp = {} /\ fr \cap pp = {}

(* C08 / C13 -- what the in-memory free list must be after it is (re)loaded:
   from the freelist page of the current meta (its content minus what is
   still pending), or by scanning (everything unreachable minus pending). *)
ReloadFromPage(content, pend) == content \ PendPages(pend)
ReloadByScan(hwm, tr, pend) == ((2..(hwm - 1)) \ tr) \ PendPages(pend)

(* C01 / C11 -- the meta page recovery must select: the valid one with the
   larger txid.  m0, m1 are records [valid, txid]. Returns 0, 1 or -1. *)
PickMeta(m0, m1) == IF m0.valid /\ m1.valid THEN (IF m1.txid > m0.txid THEN 1 ELSE 0)
                    ELSE IF m0.valid THEN 0 ELSE IF m1.valid THEN 1 ELSE -1

(* File growth (db.go:578-613, 1263-1271): the real arithmetic of C18. *)
\* the smallest power of two 2^j >= size with i <= j <= 30 (-1 if none); written without recursion so that the
\* proof system can load the module
Pow2Up(size, i) == LET c == {j \in i..30 : size <= 2^j} IN
                   IF c = {} THEN -1 ELSE 2^(CHOOSE j \in c : \A k \in c : j <= k)
GiB == 1073741824
MmapSize(size) == IF size <= GiB THEN Pow2Up(size, 15)
                  ELSE ((size + GiB - 1) \div GiB) * GiB
GrowSize(mm, want, allocSize) == IF mm <= allocSize THEN mm ELSE want + allocSize
Max(a, b) == IF a > b THEN a ELSE b
=============================================================================
