----------------------------- MODULE TraceBatch -----------------------------
(***************************************************************************)
(* C16 on executions of the real DB.Batch.  Events: the writer-lock hook   *)
(* events (BeginWrite, MetaWrite = publication, EndWrite) delimit the      *)
(* transactions; Inv is logged INSIDE each caller's function (so under the *)
(* writer lock) with the invocation number and the outcome it is about to  *)
(* produce; CallEnd when Batch returned to the caller; Final carries the   *)
(* per-caller counters read back from the database.                        *)
(***************************************************************************)
EXTENDS Integers, Sequences, FiniteSets, TLC, Json
Trace == ndJsonDeserialize("trace.ndjson")
VARIABLES l, n, pat, inv, cnt, res, cur, txOpen, txFailed
vars == <<l, n, pat, inv, cnt, res, cur, txOpen, txFailed>>
E == Trace[l]
IsEvent(e) == l <= Len(Trace) /\ E.ev = e /\ l' = l + 1
Expect(cond, what) == IF cond THEN TRUE ELSE PrintT(<<"MISMATCH", l, what, E>>) /\ FALSE
Outcome(p, k) ==
  CASE p = "ok" -> "ok" [] p = "fail1" -> IF k = 1 THEN "err" ELSE "ok" [] p = "fail2" -> IF k = 2 THEN "err" ELSE "ok"
    [] p = "failAll" -> "err" [] p = "panic1" -> IF k = 1 THEN "panic" ELSE "ok" [] p = "panicAll" -> "panic"

Init == l = 1 /\ n = 0 /\ pat = <<>> /\ inv = <<>> /\ cnt = <<>> /\ res = <<>> /\ cur = {} /\ txOpen = FALSE /\ txFailed = FALSE
TStart == /\ IsEvent("BStart")
          /\ n' = Len(E.pats) /\ pat' = E.pats /\ inv' = [c \in 1..Len(E.pats) |-> 0] /\ cnt' = [c \in 1..Len(E.pats) |-> 0]
          /\ res' = [c \in 1..Len(E.pats) |-> "none"] /\ cur' = {} /\ txOpen' = FALSE /\ txFailed' = FALSE
TBeginW == IsEvent("BeginWrite") /\ txOpen' = TRUE /\ cur' = {} /\ txFailed' = FALSE /\ UNCHANGED <<n, pat, inv, cnt, res>>
TInv == /\ IsEvent("Inv")
        /\ Expect(txOpen /\ E.k = inv[E.c] + 1 /\ E.c \notin cur /\ res[E.c] = "none", "function invoked outside a transaction, twice in one, or after its caller got a result")
        /\ Expect(E.outcome = Outcome(pat[E.c], E.k), "driver did not follow its failure pattern")
        /\ Expect(~txFailed, "a function was invoked after an earlier one of the same transaction had failed")
        /\ inv' = [inv EXCEPT ![E.c] = E.k]
        /\ IF E.outcome = "ok" THEN cur' = cur \cup {E.c} /\ txFailed' = txFailed ELSE cur' = cur /\ txFailed' = TRUE
        /\ UNCHANGED <<n, pat, cnt, res, txOpen>>
TMeta == /\ IsEvent("MetaWrite")
         /\ Expect(txOpen /\ ~txFailed, "a transaction in which a batched function failed was committed (C16)")
         /\ cnt' = [c \in 1..n |-> IF c \in cur THEN cnt[c] + 1 ELSE cnt[c]]
         /\ Expect(\A c \in 1..n : cnt'[c] <= 1, "a caller's effects were committed twice (C16)")
         /\ UNCHANGED <<n, pat, inv, res, cur, txOpen, txFailed>>
TEndW == IsEvent("EndWrite") /\ txOpen' = FALSE /\ cur' = {} /\ UNCHANGED <<n, pat, inv, cnt, res, txFailed>>
TCallEnd == /\ IsEvent("CallEnd")
            /\ Expect(res[E.c] = "none" /\ inv[E.c] >= 1, "caller returned twice or without its function being invoked")
            /\ Expect(E.res = "nil" => cnt[E.c] = 1, "Batch returned nil but the caller's effects are not committed exactly once (C16)")
            /\ Expect(E.res \in {"err", "panic"} => cnt[E.c] = 0, "Batch reported a failure but the caller's effects are committed (C16)")
            /\ Expect(E.res = (IF Outcome(pat[E.c], inv[E.c]) = "ok" THEN "nil" ELSE Outcome(pat[E.c], inv[E.c])),
                      "the caller's result is not the outcome of its own last invocation: another caller's failure leaked (C16)")
            /\ res' = [res EXCEPT ![E.c] = E.res]
            /\ UNCHANGED <<n, pat, inv, cnt, cur, txOpen, txFailed>>
TFinal == /\ IsEvent("Final")
          /\ Expect(\A c \in 1..n : res[c] # "none", "a caller never returned")
          /\ Expect(\A c \in 1..n : E.cnt[c] = cnt[c], <<"counters stored in the database differ from the committed invocations; specification says", cnt>>)
          /\ Expect(\A c \in 1..n : (res[c] = "nil") = (E.cnt[c] = 1), "stored counter is not 1 exactly for the callers that got nil (C16)")
          /\ UNCHANGED <<n, pat, inv, cnt, res, cur, txOpen, txFailed>>
Vocabulary == {"BStart", "BeginWrite", "Inv", "MetaWrite", "EndWrite", "CallEnd", "Final"}
TSkip == l <= Len(Trace) /\ E.ev \notin Vocabulary /\ l' = l + 1 /\ UNCHANGED <<n, pat, inv, cnt, res, cur, txOpen, txFailed>>
Next == TSkip \/ TStart \/ TBeginW \/ TInv \/ TMeta \/ TEndW \/ TCallEnd \/ TFinal
Spec == Init /\ [][Next]_vars
HighWater == TLCSet(1, IF TLCGet(1) < l THEN l ELSE TLCGet(1))
Accepted == IF TLCGet(1) = Len(Trace) + 1 THEN TRUE
            ELSE PrintT(<<"REJECTED at line", TLCGet(1), IF TLCGet(1) <= Len(Trace) THEN Trace[TLCGet(1)] ELSE "end">>) /\ FALSE
ASSUME TLCSet(1, 0)
=============================================================================
