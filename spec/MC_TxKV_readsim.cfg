SPECIFICATION SimSpec
CONSTANTS
  K = 4
  NVals = 4
  MaxDepth = 2
  MaxSeq = 2
  MaxCommits = 12
  NReaders = 3
  MaxOps = 3
  MaxCur = 1
  Sequential = TRUE
  WithErrKeys = FALSE
  EmitDepth = 80
INVARIANTS Emit
CHECK_DEADLOCK FALSE
