--------------------------- MODULE TraceFreelist ---------------------------
(***************************************************************************)
(* Trace validation of the free-page allocator (C09): operation sequences  *)
(* executed on the REAL array and hash-map backends through the bridge     *)
(* package; after every operation the complete observable state (free ids, *)
(* pending records with their allocating txid, reader registry, counts,    *)
(* Freed(id) for every id, Copyall, and the page image produced by Write,  *)
(* decoded independently) is logged.  Every line must be a step of the     *)
(* contract in Freelist.tla; Allocate and ReleasePendingPages are          *)
(* nondeterministic in the contract and are bound by the logged result.    *)
(***************************************************************************)
EXTENDS Freelist, Json

Trace == ndJsonDeserialize("trace.ndjson")
VARIABLE l
tfvars == <<st, wtx, hist, l>>
E == Trace[l]
IsEvent(e) == l <= Len(Trace) /\ E.ev = e /\ l' = l + 1
Expect(cond, what) == IF cond THEN TRUE ELSE PrintT(<<"MISMATCH", l, what, E>>) /\ FALSE

PendOf(s) == {<<s[i][1], s[i][2], s[i][3]>> : i \in 1..Len(s)}
SameBag(b, s) == \A t \in (DOMAIN b) \cup ToSet(s) :
                    (IF t \in DOMAIN b THEN b[t] ELSE 0) = Cardinality({i \in 1..Len(s) : s[i] = t})
Sorted(s) == \A i \in 1..(Len(s) - 1) : s[i] < s[i + 1]

\* the logged observation must be exactly the specification's state
ObsOK(s, o) ==
   /\ Expect(ToSet(o.free) = s.free /\ Len(o.free) = Cardinality(s.free), <<"free ids; specification says", s.free>>)
   /\ Expect(PendOf(o.pend) = s.pend /\ Len(o.pend) = Cardinality(s.pend), <<"pending records; specification says", s.pend>>)
   /\ Expect(SameBag(s.readers, o.readers), <<"reader registry; specification says", s.readers>>)
   /\ Expect(o.freeN = Cardinality(s.free) /\ o.pendN = Cardinality(s.pend) /\ o.count = Cardinality(s.free) + Cardinality(s.pend), "FreeCount / PendingCount / Count")
   /\ Expect(ToSet(o.freed) = s.free \cup PP(s), <<"Freed(id) is not exactly free + pending; specification says", s.free \cup PP(s)>>)
   /\ Expect(ToSet(o.copyall) = s.free \cup PP(s) /\ Sorted(o.copyall), "Copyall is not the sorted list of free + pending ids")
   /\ Expect(s.free \cap PP(s) = {} /\ \A p \in s.free \cup PP(s) : p >= 2, "a page is free and pending, or a meta page is listed")

TFInit == st = St0({}) /\ wtx = 1 /\ hist = <<>> /\ l = 1

TFReset == /\ IsEvent("FLInit")
           /\ st' = St0(ToSet(E.ids)) /\ wtx' = 1 /\ hist' = <<>>
           /\ ObsOK(st', E.obs)
TFOp ==
   /\ IsEvent("FLOp") /\ hist' = hist /\ wtx' = wtx
   /\ CASE E.op = "Allocate" ->
             /\ Expect(AllocOK(st, E.n, E.res), <<"Allocate returned a run that is not free, or 0 although a run exists (C09)", st.free>>)
             /\ st' = DoAlloc(st, E.t, E.n, E.res)
        [] E.op = "Free" ->
             /\ Expect(FreePre(st, E.t, E.p, E.ov), "driver freed a page that is not in use")
             /\ st' = DoFree(st, E.t, E.p, E.ov)
        [] E.op = "Rollback" -> st' = DoRollback(st, E.t)
        [] E.op = "AddReader" -> st' = DoAddReader(st, E.t)
        [] E.op = "RemoveReader" -> /\ Expect(E.t \in RTx(st.readers), "driver removed an unknown reader") /\ st' = DoRemoveReader(st, E.t)
        [] E.op = "Release" ->
             LET S == st.pend \ PendOf(E.obs.pend) IN
             /\ Expect(ReleaseOK(st, S), <<"released set is unsafe for a registered reader, or incomplete with no reader (C09/C10)", S, st.pend, st.readers>>)
             /\ st' = DoRelease(st, S)
        [] E.op = "NoSyncReload" -> st' = DoReload(st, ToSet(E.ids))
        \* Reload from an OLDER page image (what a physical rollback does, tx.go:323-343)
        [] E.op = "ReloadSaved" -> st' = DoReload(st, ToSet(E.image.ids))
        [] E.op = "Save" ->
             /\ Expect(ToSet(E.image.ids) = Image(st), <<"page image does not list free + pending; specification says", Image(st)>>)
             /\ st' = st
        [] E.op = "Reload" ->
             /\ Expect(ToSet(E.image.ids) = Image(st), <<"page image does not list free + pending; specification says", Image(st)>>)
             /\ st' = DoReload(st, Image(st))
        [] E.op = "WriteRead" ->
             LET n == Cardinality(Image(st)) IN
             /\ Expect(ToSet(E.image.ids) = Image(st) /\ Len(E.image.ids) = n /\ Sorted(E.image.ids), <<"page image does not list free + pending, sorted, once", Image(st)>>)
             /\ Expect(E.image.count = CountField(n) /\ (n >= 65535 => E.image.lead = n), <<"count field / leading element (0xFFFF rule)", n>>)
             /\ st' = St0(Image(st))
   /\ ObsOK(st', E.obs)

TFNext == TFReset \/ TFOp
TFSpec == TFInit /\ [][TFNext]_tfvars
HighWater == TLCSet(1, IF TLCGet(1) < l THEN l ELSE TLCGet(1))
Accepted == IF TLCGet(1) = Len(Trace) + 1 THEN TRUE
            ELSE PrintT(<<"REJECTED at line", TLCGet(1), IF TLCGet(1) <= Len(Trace) THEN Trace[TLCGet(1)].op ELSE "end">>) /\ FALSE
ASSUME TLCSet(1, 0)
=============================================================================
