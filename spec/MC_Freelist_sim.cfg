SPECIFICATION FLSpec
CONSTANTS
  MaxPage = 9
  MaxTxid = 6
  MaxRun = 3
  MaxReaders = 2
INVARIANTS EmitInv
CHECK_DEADLOCK FALSE
