SPECIFICATION MSpec
CONSTANTS
  Cap = 4
  MaxKeys = 14
  MinFill = 1
INVARIANTS CommittedShape
PROPERTIES KeysConserved
CHECK_DEADLOCK FALSE
