SPECIFICATION TFSpec
CONSTANTS
  MaxPage = 6
  MaxTxid = 3
  MaxRun = 2
  MaxReaders = 1
CONSTRAINT HighWater
POSTCONDITION Accepted
CHECK_DEADLOCK FALSE
