SPECIFICATION MCSpec
CONSTANTS
  K = 3
  NVals = 1
  MaxDepth = 1
  MaxSeq = 0
  MaxCommits = 1
  NReaders = 1
  MaxOps = 3
  MaxCur = 1
  Sequential = FALSE
  WithErrKeys = FALSE
  EmitDepth = 0
VIEW View
INVARIANTS ReaderSeesVersion SingleWriter StoreIsLastVersion CompactionPreserves
PROPERTIES ReaderStable TxidStep StoreOnlyByPublish ErrorsChangeNothing
CHECK_DEADLOCK FALSE
