SPECIFICATION FLSpec
CONSTANTS
  MaxPage = 6
  MaxTxid = 3
  MaxRun = 2
  MaxReaders = 1
VIEW FLView
INVARIANTS Disjoint NoMetaPages OnePendingRecordPerPage CodePolicyAdmissible
PROPERTIES ReleaseNeverUnsafe AllocSound
CHECK_DEADLOCK FALSE
