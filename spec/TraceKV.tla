------------------------------ MODULE TraceKV ------------------------------
(***************************************************************************)
(* Trace validation for the logical layer: every line of an execution      *)
(* recorded from the REAL code (driver events = API calls with arguments   *)
(* and results; hook events BeginWrite / MetaWrite / EndWrite taken under  *)
(* the protecting locks) must be a step of TxKV, and every logged result   *)
(* must be the result TxKV computes.  Decides C02-C05 (and the logical     *)
(* halves of C08, C13-C15) on recorded executions.                         *)
(***************************************************************************)
EXTENDS TxKV, Json

CONSTANT NH                       \* handle ids are 1..NH
Trace == ndJsonDeserialize("trace.ndjson")
VARIABLE l
tvars == <<vars, l>>
E == Trace[l]
IsEvent(e) == l <= Len(Trace) /\ E.ev = e /\ l' = l + 1

\* report the first mismatch on stdout (the search is linear, so this fires at the failing line)
Expect(cond, what) == IF cond THEN TRUE ELSE PrintT(<<"MISMATCH", l, what, E>>) /\ FALSE

Rev(s) == [i \in 1..Len(s) |-> s[Len(s) + 1 - i]]
ResOK(logged, spec) == logged = spec \/ (spec = "ErrAny" /\ logged # "ok")
\* a stored empty value may come back as nil or as an empty slice (KV.tla header)
ValOK(logged, stored) == logged = stored \/ (stored = 0 /\ logged = NilV)

RECURSIVE DumpOK(_, _)
DumpOK(j, b) == /\ j.seq = b.seq
                /\ j.ks = Keys(b)
                /\ \A i \in 1..Len(j.ks) :
                      LET e == j.es[i] be == b.ents[j.ks[i]] IN
                      IF e.t = "b" THEN be.t = "b" /\ DumpOK(e.b, be.b)
                      ELSE be.t = "v" /\ ValOK(e.v, be.v)

TInit == Init0(1..NH) /\ l = 1

TReset == /\ IsEvent("Reset")
          /\ store' = Empty /\ lastTxid' = 1 /\ ver' = (1 :> Empty)
          /\ tx' = [h \in 1..NH |-> NoTx] /\ cur' = <<>> /\ wlock' = 0 /\ last' = NoRes

TBeginCall == IsEvent("BeginCall") /\ BeginCall(E.h)
TBegin == /\ IsEvent("Begin")
          /\ IF E.w THEN BindWriter(E.h, E.txid) ELSE BeginRead(E.h, E.txid)
TLock == IsEvent("BeginWrite") /\ LockWriter(E.txid)
TUnlock == IsEvent("EndWrite") /\ UnlockWriter(E.txid)
TMeta == /\ IsEvent("MetaWrite")
         /\ LET hs == {h \in Handles : tx[h].st = "open" /\ tx[h].w /\ tx[h].id = E.txid} IN
            IF hs = {} THEN InternalCommit(E.txid) ELSE \E h \in hs : Publish(h)

OutOK(o, logged, spec) == IF o = "Get" THEN ValOK(logged, spec) ELSE logged = spec
\* "NoBucket": the driver could not resolve the bucket path through Bucket(): legal iff the path does not exist
TOp == /\ IsEvent("Op")
       /\ IF E.res = "NoBucket"
          THEN /\ Expect(tx[E.h].st = "open" /\ (~ValidPath(tx[E.h].root, E.path) \/ (E.op = "MoveBucket" /\ ~ValidPath(tx[E.h].root, E.dst))),
                         "Bucket() returned nil for a bucket that exists in the specification")
               /\ UNCHANGED vars
          ELSE /\ Expect(OpEnabled(E.h, E), "operation not enabled in the specification")
               /\ DoOp(E.h, E)
               /\ Expect(ResOK(E.res, last'.res), <<"result; specification says", last'>>)
               /\ Expect(E.res # "ok" \/ OutOK(E.op, E.out, last'.out), <<"output; specification says", last'>>)

TNewCur == IsEvent("NewCur") /\ NewCursor(E.c, E.h, E.path)
TCur == /\ IsEvent("Cur")
        /\ Expect(E.c \in DOMAIN cur /\ (cur[E.c].valid \/ E.op \in {"First", "Last", "Seek"}), "cursor step not enabled")
        /\ CurOp(E.c, E.op, E.arg)
        /\ Expect(E.k = last'.out, <<"cursor key; specification says", last'.out>>)
        /\ LET b == CurBucket(E.c) IN
           E.k # NilV => Expect(IF b.ents[E.k].t = "b" THEN E.vnil ELSE ValOK(IF E.vnil THEN NilV ELSE E.v, b.ents[E.k].v),
                                <<"cursor value; specification says", b.ents[E.k]>>)
TCurDel == /\ IsEvent("CurDel") /\ CurDelete(E.c)
           /\ Expect(E.res = last'.res, <<"cursor delete; specification says", last'>>)
TForEach == /\ IsEvent("ForEach") /\ tx[E.h].st = "open"
            /\ Expect(E.keys = Keys(At(tx[E.h].root, E.path)), <<"ForEach order; specification says", Keys(At(tx[E.h].root, E.path))>>)
            /\ Expect(E.rev = Rev(Keys(At(tx[E.h].root, E.path))), "Last/Prev order is not the reverse of the key order")
            /\ UNCHANGED vars
TDump == /\ IsEvent("Dump") /\ tx[E.h].st = "open"
         /\ Expect(DumpOK(E.root, tx[E.h].root), <<"dump differs from the transaction's view; specification says", tx[E.h].root>>)
         /\ UNCHANGED vars
TEnd == /\ IsEvent("End")
        /\ IF E.how = "commit"
           THEN IF E.ok THEN EndCommit(E.h)
                ELSE EndCommitFail(E.h) \/ \E present \in BOOLEAN : EndCommitFailPublished(E.h, present)
           ELSE IF tx[E.h].w THEN Rollback(E.h) ELSE EndRead(E.h)
TReopen == IsEvent("Reopen") /\ Reopen
\* C14: the opened copy shows exactly the snapshot of the transaction it was taken through
TBackup == /\ IsEvent("Backup") /\ tx[E.h].st = "open"
           /\ Expect(E.written = E.size, <<"bytes written differ from tx.Size()", E.size>>)
           /\ Expect(E.opened, "the backup does not open as a database")
           /\ Expect(DumpOK(E.root, BackupContent(E.h)), <<"backup content differs from the transaction's snapshot (C14); specification says", BackupContent(E.h)>>)
           /\ Expect(E.txid = tx[E.h].id /\ E.meta0 = tx[E.h].id /\ E.meta1 = tx[E.h].id - 1, "backup metas are not (txid, txid - 1) with meta 0 winning")
           /\ Expect(E.checkErrs = 0 /\ E.problems = 0 /\ E.fileLen = E.size, "backup fails the integrity check / page accounting / length")
           /\ UNCHANGED vars
\* C15: the destination of a compaction equals the source for every limit
TCompact == /\ IsEvent("Compact") /\ Quiescent
            /\ Expect(E.ok, <<"compaction failed", E.err>>)
            /\ Expect(DumpOK(E.root, CompactContent) /\ DumpOK(E.root, store), <<"compacted content differs from the source (C15); specification says", CompactContent>>)
            /\ Expect(E.checkErrs = 0 /\ E.problems = 0, "compacted database fails the integrity check / page accounting")
            /\ Expect(E.srcUnchanged, "compaction changed the source file")
            /\ UNCHANGED vars

\* the command-line views of the closed database (`bbolt buckets`, `bbolt keys`, `bbolt get`) are projections of the
\* committed state: top-level bucket names in key order, the keys of a (nested) bucket in key order, the value of a key
TCLIView == /\ IsEvent("CLIView")
            /\ Expect(E.bucketsOK /\ E.buckets = Keys(store), <<"bbolt buckets; specification says", Keys(store)>>)
            /\ \A i \in 1..Len(E.keys) :
                  LET q == E.keys[i] IN
                  Expect(q.ok /\ ValidPath(store, q.path) /\ q.keys = Keys(At(store, q.path)), <<"bbolt keys; specification says", q.path, IF ValidPath(store, q.path) THEN Keys(At(store, q.path)) ELSE "no such bucket">>)
            /\ \A i \in 1..Len(E.gets) :
                  LET g == E.gets[i] IN
                  Expect(g.ok /\ ValidPath(store, g.path) /\ IsV(At(store, g.path), g.k) /\ g.v = At(store, g.path).ents[g.k].v,
                         <<"bbolt get; specification says", g.path, g.k, IF ValidPath(store, g.path) /\ IsV(At(store, g.path), g.k) THEN At(store, g.path).ents[g.k].v ELSE "no such key">>)
            /\ UNCHANGED vars
TNext == TReset \/ TBeginCall \/ TBegin \/ TLock \/ TUnlock \/ TMeta \/ TOp \/ TNewCur \/ TCur \/ TCurDel
         \/ TForEach \/ TDump \/ TEnd \/ TReopen \/ TBackup \/ TCompact \/ TCLIView
TSpec == TInit /\ [][TNext]_tvars

\* acceptance: the whole trace was consumed (high-water mark of l; -workers 1)
HighWater == TLCSet(1, IF TLCGet(1) < l THEN l ELSE TLCGet(1))
Accepted == IF TLCGet(1) = Len(Trace) + 1 THEN TRUE
            ELSE PrintT(<<"REJECTED at line", TLCGet(1), IF TLCGet(1) <= Len(Trace) THEN Trace[TLCGet(1)] ELSE "end">>) /\ FALSE
ASSUME TLCSet(1, 0)
=============================================================================
