SPECIFICATION Spec
CONSTANTS
  NA = 3
  MaxSteps = 1000
  EmitDepth = 0
VIEW View
INVARIANTS Exclusion
CHECK_DEADLOCK FALSE
