SPECIFICATION SimSpec
CONSTANTS
  K = 5
  NVals = 4
  MaxDepth = 3
  MaxSeq = 3
  MaxCommits = 8
  NReaders = 2
  MaxOps = 6
  MaxCur = 2
  Sequential = TRUE
  WithErrKeys = TRUE
  EmitDepth = 60
INVARIANTS Emit
CHECK_DEADLOCK FALSE
