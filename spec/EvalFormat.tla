----------------------------- MODULE EvalFormat -----------------------------
(***************************************************************************)
(* TLC as the interpreter of Format.tla on bytes written by the REAL code. *)
(* Input (ndjson):                                                         *)
(*  File   the bytes of a database file + what the API reported for it +   *)
(*         the page graph computed by the harness' independent Go decoder: *)
(*         Format.Decode(bytes) must give the API's content (C12), the Go  *)
(*         decoder's graph (cross-validation of the decoder) and a         *)
(*         consistent accounting (C07).                                    *)
(*  Metas  the two 80-byte meta page prefixes of a (damaged) file + what   *)
(*         Open did with the file: Format decides validity from the bytes  *)
(*         and which meta must be presented (C11).                         *)
(*  Graph  the page graph of a (mutated) file + what Tx.Check and the CLI  *)
(*         reported: Consistent(graph) is the verdict they must match (C19)*)
(***************************************************************************)
EXTENDS Format, Json
BT == INSTANCE BTree WITH Cap <- 4, MaxKeys <- 0, MinFill <- 1, leaves <- <<>>, dirty <- FALSE

Input == ndJsonDeserialize("files.ndjson")
VARIABLE l
E == Input[l]
IsEvent(e) == l <= Len(Input) /\ E.ev = e /\ l' = l + 1
Expect(cond, what) == IF cond THEN TRUE ELSE PrintT(<<"MISMATCH", l, what, E.name>>) /\ FALSE

RECURSIVE ContentEq(_, _)
ContentEq(d, a) == /\ d.seq = a.seq /\ Len(d.ents) = Len(a.ents)
                   /\ \A i \in 1..Len(d.ents) :
                        /\ d.ents[i].k = a.ents[i].k /\ d.ents[i].t = a.ents[i].t
                        /\ IF d.ents[i].t = "v" THEN d.ents[i].v = a.ents[i].v ELSE ContentEq(d.ents[i].b, a.ents[i].b)
RECURSIVE KeysAscending(_)
KeysAscending(d) == /\ \A i \in 1..(Len(d.ents) - 1) : d.ents[i].k[2] < d.ents[i + 1].k[2] \/ d.ents[i].k[2] = -1
                    /\ \A i \in 1..Len(d.ents) : d.ents[i].t = "v" \/ KeysAscending(d.ents[i].b)

TFile == /\ IsEvent("File")
         /\ LET f == [b |-> E.bytes, ps |-> E.ps]
                d == Decode(f)
            IN /\ Expect(d.ok, "no valid meta page")
               /\ Expect(d.txid = E.api.txid /\ d.hwm = E.api.hwm, <<"meta fields", d.txid, d.hwm>>)
               /\ Expect(ContentEq(d.root, E.api.root), "content decoded from the bytes differs from what the API reports (C12)")
               /\ Expect(KeysAscending(d.root), "keys not ascending in the decoded file")
               /\ Expect(d.pages = E.graph.reach \/ (SeqSet(d.pages) = SeqSet(E.graph.reach) /\ Len(d.pages) = Len(E.graph.reach)),
                         <<"reachable pages: Format.tla vs the Go decoder", d.pages>>)
               /\ Expect(d.free = E.graph.free /\ d.flrun = SeqSet(E.graph.fl), <<"free list: Format.tla vs the Go decoder", d.free>>)
               /\ Expect(Consistent([hwm |-> d.hwm, reach |-> d.pages, free |-> d.free, fl |-> d.flrun, hasfl |-> d.freelist # -1,
                                     badtype |-> 0, disorder |-> 0]), "accounting predicate fails on a file produced by commits (C07)")
               /\ \A i \in 1..Len(E.pinfo) : Expect(PageInfoOK(f, d, E.pinfo[i]), <<"Tx.Page differs from the page header / free list; page", E.pinfo[i]>>)
               \* the command-line views: `bbolt pages` lists exactly the page starts, ascending, with the same facts; `bbolt info` the page size
               /\ Expect(~E.cli \/ (E.cliInfo = E.ps), <<"bbolt info prints a wrong page size (or failed)", E.cliInfo>>)
               /\ Expect(~E.cli \/ ({E.cliPages[i].id : i \in 1..Len(E.cliPages)} = PagesTableIds(d) /\ Len(E.cliPages) = Cardinality(PagesTableIds(d))
                                    /\ \A i \in 1..(Len(E.cliPages) - 1) : E.cliPages[i].id < E.cliPages[i + 1].id),
                         <<"bbolt pages does not list exactly the page starts in ascending order; expected ids", PagesTableIds(d)>>)
               /\ \A i \in 1..Len(E.cliPages) : Expect(PagesRowOK(f, d, E.cliPages[i]), <<"bbolt pages row differs from the page header / free list", E.cliPages[i]>>)

TMetas == /\ IsEvent("Metas")
          /\ LET f == [b |-> E.m0 \o E.m1, ps |-> 80]
                 m0 == MetaAt(f, 0) m1 == MetaAt(f, 80)
                 a == ChooseMeta(m0, m1)
             IN IF a = -1 \/ E.tooSmall
                THEN Expect(~E.obs.opened /\ E.obs.panic = "", <<"both meta pages invalid (or the file is too small) but Open presented data or panicked (C11)", m0.why, m1.why>>)
                ELSE LET m == IF a = 0 THEN m0 ELSE m1 IN
                     /\ Expect(E.obs.opened, <<"one meta page is valid but Open failed (C11)", m0.why, m1.why, E.obs.err>>)
                     /\ Expect(E.obs.txid = m.txid, <<"Open presented a different meta than the valid one with the larger txid (C11)", m.txid>>)
                     /\ Expect(E.obs.content = E.versions[ToString(m.txid)], "content presented after fallback is not the surviving meta's committed state (C11)")
                     /\ Expect(E.obs.checkErrs = 0, "fallback state fails the integrity check")

TGraph == /\ IsEvent("Graph")
          /\ LET ok == Consistent([E.g EXCEPT !.fl = SeqSet(E.g.fl)]) IN
             /\ Expect(ok = (E.obs.checkErrs = 0), <<"Tx.Check verdict differs from the accounting predicate (C19); predicate says", ok>>)
             /\ Expect(E.obs.cli = -1 \/ (ok = (E.obs.cli = 0)), <<"bbolt check exit status differs from the accounting predicate (C19); predicate says", ok>>)

(* C20: repair commands.  abandon: same content, no freelist page in either meta.  rebuild (of an   *)
(* abandoned file): same content, a persisted free list that is exactly the unreachable pages (the  *)
(* partition clause of Consistent).  revert-meta-page directly after a commit: exactly the previous *)
(* version, consistent.  Every command writes only its output.                                      *)
TSurgery ==
   /\ IsEvent("Surgery")
   /\ Expect(E.srcSame, "surgery command changed its source file (C20)")
   /\ Expect(E.kind \in {"inplace", "stale"} \/ E.exit = 0, <<"surgery command failed", E.exit>>)
   /\ Expect(E.kind \in {"inplace", "stale"} \/ (E.out.opened /\ E.out.checkErrs = 0), "output of the surgery command does not open / fails the integrity check")
   /\ LET g == [E.g EXCEPT !.fl = SeqSet(E.g.fl)] IN
      CASE E.kind = "abandon" ->
             /\ Expect(E.out.content = E.versions[ToString(E.src.txid)], "abandoning the free list changed the content")
             /\ Expect(~g.hasfl /\ E.m0fl = -1 /\ E.m1fl = -1, "free list not abandoned in both meta pages")
             /\ Expect(Consistent(g), "accounting broken after abandon")
        [] E.kind = "rebuild" ->
             /\ Expect(E.out.content = E.versions[ToString(E.src.txid)], "rebuilding the free list changed the content")
             /\ Expect(g.hasfl /\ Consistent(g), "after rebuild the free pages are not exactly the unreachable pages")
        [] E.kind = "inplace" -> TRUE      \* --output is (a hard link of) the source: only "source byte-identical" above
        [] E.kind = "stale" ->             \* --output exists: refuse and leave it alone, or produce the source's content
             Expect((E.exit # 0 /\ E.staleSame) \/ (E.exit = 0 /\ E.out.opened /\ E.out.content = E.versions[ToString(E.expectTxid)]),
                    "an existing output file was neither left alone nor replaced by the source's content")
        [] E.kind = "revert" ->
             /\ Expect(E.out.txid = E.src.txid - 1, <<"revert-meta-page does not open at the previous transaction", E.src.txid - 1>>)
             /\ Expect(E.out.content = E.versions[ToString(E.src.txid - 1)], "revert-meta-page does not present exactly the previously committed state")
             /\ Expect(Consistent(g), "accounting broken after revert-meta-page")

\* the shape of every committed bucket tree (BTree.tla), from the decoder's page / bucket records
TShape == /\ IsEvent("Shape")
          /\ Expect(BT!FitsOK(E.pages), "an element lies outside its page (C07)")
          /\ Expect(BT!BalancedOK(E.pages), "leaves of one bucket are on different levels")
          /\ Expect(BT!RootOK(E.pages) /\ BT!LeafOK(E.pages) /\ BT!BranchOK(E.pages), "empty non-root leaf, or branch page with fewer than two children")
          /\ Expect(BT!InlineOK(E.buckets, E.ps), "an inline bucket holds nested buckets or is larger than a quarter page")
          \* Bucket.Stats() of every top-level bucket, as reported by the real code, is the function of the shape BTree.tla defines
          /\ \A i \in 1..Len(E.stats) :
                LET want == BT!StatsOf(E.pages, E.buckets, E.ps, E.stats[i].id) IN
                Expect(\A f \in DOMAIN want : E.stats[i][f] = want[f], <<"Bucket.Stats differs from the tree; specification says", want, "reported", E.stats[i]>>)
          \* `bbolt stats` prints the aggregate over the top-level buckets
          /\ LET L == [i \in 1..Len(E.stats) |-> BT!StatsOf(E.pages, E.buckets, E.ps, E.stats[i].id)]
                 want == BT!AggStats(L) IN
             Expect(~E.cli \/ \A f \in DOMAIN want : E.cliStats[f] = want[f], <<"bbolt stats differs from the aggregate of the trees; specification says", want, "printed", E.cliStats>>)

EInit == l = 1
ENext == TFile \/ TMetas \/ TGraph \/ TSurgery \/ TShape
ESpec == EInit /\ [][ENext]_l
HighWater == TLCSet(1, IF TLCGet(1) < l THEN l ELSE TLCGet(1))
Accepted == IF TLCGet(1) = Len(Input) + 1 THEN TRUE
            ELSE PrintT(<<"REJECTED at line", TLCGet(1), IF TLCGet(1) <= Len(Input) THEN Input[TLCGet(1)].name ELSE "end">>) /\ FALSE
ASSUME TLCSet(1, 0)
=============================================================================
