----------------------------- MODULE TraceBolt -----------------------------
(***************************************************************************)
(* Trace validation of the page-level engine.  Every event comes from the  *)
(* REAL code: hook events emitted under the protecting lock (BeginRead,    *)
(* EndRead, BeginWrite, Free, Alloc, MetaWrite, CommitDone, Rollback..,    *)
(* EndWrite, LoadFreelist..), intercepted I/O calls (IO: write, sync,       *)
(* truncate, fsync, mmap, with the injected failure if any) and driver     *)
(* observations (Decoded = independent decode of the file, Stats, Check,   *)
(* FileLen, CrashProbe).  Each line must be a step the specification       *)
(* allows; the checks are phrased from the properties:                     *)
(*   C01  data sync before meta write, grow before writing past EOF,       *)
(*        recovery of every crash image (CrashProbe)                       *)
(*   C02/C06  no allocation / write / release touches a visible page       *)
(*   C03  one writer, consecutive txids                                    *)
(*   C07  partition of the page space after every transaction, decoder     *)
(*        and statistics agree with the specification's sets               *)
(*   C08  state after a failed commit                                      *)
(*   C09  allocation only from free runs, from the end only if none fits   *)
(*   C10  release safety and liveness, pending bound                       *)
(*   C13  loaded / rebuilt free list equals the persisted one              *)
(*   C18  file never grows beyond MaxSize                                  *)
(***************************************************************************)
EXTENDS BoltOps, Json

Trace == ndJsonDeserialize("trace.ndjson")
VARIABLES l, free, pend, readers, tree, flp, flc, vhwm, cur, w, fs, opt, sc
bvars == <<l, free, pend, readers, tree, flp, flc, vhwm, cur, w, fs, opt, sc>>
E == Trace[l]
IsEvent(e) == l <= Len(Trace) /\ E.ev = e /\ l' = l + 1
Expect(cond, what) == IF cond THEN TRUE ELSE PrintT(<<"MISMATCH", l, what, E>>) /\ FALSE

NoW == [open |-> FALSE, txid |-> 0, hwm |-> 0, freed |-> {}, allocd |-> {}, runs |-> {}, written |-> {},
        synced |-> FALSE, metaEv |-> FALSE, metaw |-> FALSE, msynced |-> FALSE, nfl |-> {}, ntree |-> {}, nflc |-> {},
        hasfl |-> FALSE, done |-> FALSE, failed |-> FALSE, grown |-> FALSE, rolled |-> FALSE, quiet |-> FALSE,
        pc |-> 0, wr |-> 0]      \* pages allocated / write calls completed by this transaction (statistics)

\* fs: the file system view.  unsynced = indices of the writes issued since the last completed sync.
\* sc: the statistics DB.Stats() must report at a quiescent point (db.go:1466-1500, tx.go:365-385):
\*   txn / open    read transactions started / open          (beginTx, removeTx)
\*   pc / wr       pages allocated / write calls completed by all closed write transactions (TxStats merged in tx.close)
\*   freeN, pendN, alloc, inuse   the free-list numbers published by the last closed writer (or by loading the free list)
\*   last          the previous observation of the monotone counters
SC0 == [txn |-> 0, open |-> 0, pc |-> 0, wr |-> 0, freeN |-> 0, pendN |-> 0, alloc |-> 0, inuse |-> 0,
        last |-> [split |-> 0, spill |-> 0, rebalance |-> 0, nodes |-> 0, deref |-> 0, cursors |-> 0]]
FreelistBytes(n) == 16 + 8 * (IF n >= 65535 THEN n + 1 ELSE n)
FS0 == [len |-> 0, openedLen |-> 0, durMeta |-> 1, volMeta |-> 0, unsynced |-> {}, fresh |-> TRUE]

VerPages(v) == tree[v] \cup flp[v]
Visible == VerPages(cur) \cup UNION {VerPages(t) : t \in RTx(readers)}
PP == PendPages(pend)
FreeDisjoint == free \cap PP = {}
NoMeta == \A p \in free \cup PP : p >= 2
Keep(f, S) == [x \in (DOMAIN f) \cap S |-> f[x]]
Put(f, k, v) == [x \in (DOMAIN f) \cup {k} |-> IF x = k THEN v ELSE f[x]]
BagOf(s) == [t \in ToSet(s) |-> Cardinality({i \in 1..Len(s) : s[i] = t})]
SameBag(b, s) == \A t \in (DOMAIN b) \cup ToSet(s) :
                    (IF t \in DOMAIN b THEN b[t] ELSE 0) = Cardinality({i \in 1..Len(s) : s[i] = t})
PendOf(s) == {<<s[i][1], s[i][2], s[i][3]>> : i \in 1..Len(s)}

TInit == /\ l = 1 /\ free = {} /\ pend = {} /\ readers = <<>>
         /\ tree = (1 :> {3}) /\ flp = (1 :> {2}) /\ flc = (1 :> {}) /\ vhwm = (1 :> 4)
         /\ cur = 1 /\ w = NoW /\ fs = FS0 /\ sc = SC0
         /\ opt = [ps |-> 4096, noFLSync |-> FALSE, noGrowSync |-> FALSE, maxSize |-> 0, readOnly |-> FALSE, allocSize |-> 16777216]

OptOf(o) == [ps |-> o.pageSize, noFLSync |-> o.noFreelistSync, noGrowSync |-> o.noGrowSync, maxSize |-> o.maxSize,
             readOnly |-> o.readOnly, allocSize |-> IF o.allocSize = 0 THEN 16777216 ELSE o.allocSize]
\* C18: the size the file will be grown to if the transaction commits with high-water mark h while the map
\* has size mm (db.go:1223-1271): what the admission check of allocate() must predict
PredictedFileSize(h, mm) == GrowSize(mm, (h + 1) * opt.ps, opt.allocSize)

TReset == /\ IsEvent("Reset")
          /\ free' = {} /\ pend' = {} /\ readers' = <<>>
          /\ tree' = (1 :> {3}) /\ flp' = (1 :> {2}) /\ flc' = (1 :> {}) /\ vhwm' = (1 :> 4)
          /\ cur' = 1 /\ w' = NoW /\ fs' = FS0 /\ opt' = OptOf(E.opts) /\ sc' = SC0

\* Close + Open.  Nothing is pending in memory after a reopen; the free list is re-established by LoadFreelist*.
TReopen == /\ IsEvent("Reopen")
           /\ Expect(~w.open /\ RTx(readers) = {}, "reopen with a transaction open")
           /\ pend' = {} /\ free' = {} /\ readers' = <<>> /\ opt' = [OptOf(E.opts) EXCEPT !.ps = opt.ps]
           /\ fs' = [fs EXCEPT !.openedLen = fs.len] /\ sc' = SC0
           /\ UNCHANGED <<tree, flp, flc, vhwm, cur, w>>

\* ------------------------------------------------------------------ free list (re)construction
TLoadPage == /\ IsEvent("LoadFreelistPage")
             /\ Expect(flp[cur] # {} /\ ToSet(E.free) = flc[cur] /\ E.pend = <<>>,
                       <<"free list read from the page differs from what was persisted", flc[cur]>>)
             /\ free' = ToSet(E.free) /\ pend' = {} /\ sc' = [sc EXCEPT !.freeN = Len(E.free)]
             /\ UNCHANGED <<readers, tree, flp, flc, vhwm, cur, w, fs, opt>>
\* C13: a free list rebuilt by scanning equals everything unreachable (= free + pending that would have been persisted)
TLoadScan == /\ IsEvent("LoadFreelistScan")
             /\ Expect(flp[cur] = {} /\ ToSet(E.free) = ReloadByScan(vhwm[cur], tree[cur], {}) /\ E.pend = <<>>,
                       <<"free list rebuilt by scanning differs from the unreachable set", ReloadByScan(vhwm[cur], tree[cur], {})>>)
             /\ free' = ToSet(E.free) /\ pend' = {} /\ sc' = [sc EXCEPT !.freeN = Len(E.free)]
             /\ UNCHANGED <<readers, tree, flp, flc, vhwm, cur, w, fs, opt>>

\* ------------------------------------------------------------------ readers
\* (A database opened read-only never has a writer: nothing is ever released there and the reader
\*  registry - which may not even exist before the free list is loaded lazily - is irrelevant.)
TBeginRead == /\ IsEvent("BeginRead")
              /\ Expect(E.txid = cur, <<"reader does not start on the newest written meta", cur>>)
              /\ IF opt.readOnly THEN readers' = readers
                 ELSE /\ readers' = Inc(readers, E.txid)
                      /\ Expect(~E.nofl /\ SameBag(readers', E.readers), "reader not registered with the free list")
              /\ sc' = [sc EXCEPT !.txn = @ + 1, !.open = @ + 1]
              /\ UNCHANGED <<free, pend, tree, flp, flc, vhwm, cur, w, fs, opt>>
TEndRead == /\ IsEvent("EndRead")
            /\ IF opt.readOnly THEN readers' = readers
               ELSE /\ Expect(E.txid \in RTx(readers), "EndRead of an unknown reader")
                    /\ readers' = Dec(readers, E.txid)
                    /\ Expect(~E.nofl /\ SameBag(readers', E.readers), "reader not removed from the free list")
            /\ sc' = [sc EXCEPT !.open = @ - 1]
            /\ UNCHANGED <<free, pend, tree, flp, flc, vhwm, cur, w, fs, opt>>

\* ------------------------------------------------------------------ writer
TBeginWrite ==
   /\ IsEvent("BeginWrite")
   /\ Expect(~w.open, "second writer while one is open (C03)")
   /\ Expect(E.txid = cur + 1, <<"writer txid is not the successor of the committed one", cur>>)
   /\ LET lp == PendOf(E.pend) lf == ToSet(E.free) rel == pend \ lp IN
        /\ Expect(lp \subseteq pend, <<"pending records invented", lp \ pend>>)
        /\ Expect(\A r \in rel : ReleaseSafe(r, readers), <<"released a page an open reader can reach (C02/C10)", {r \in rel : ~ReleaseSafe(r, readers)}>>)
        /\ Expect(RTx(readers) = {} => lp = {}, <<"pending pages not released although no reader is open (C10)", lp>>)
        /\ Expect(lf = free \cup PendPages(rel), <<"free set is not old free + released", free \cup PendPages(rel)>>)
        /\ Expect(lf \cap Visible = {}, <<"free pages intersect a visible version (C06)", lf \cap Visible>>)
        /\ free' = lf /\ pend' = lp
   /\ w' = [NoW EXCEPT !.open = TRUE, !.txid = E.txid, !.hwm = vhwm[cur], !.quiet = (RTx(readers) = {})]
   /\ Expect(E.hwm = vhwm[cur], <<"writer starts from a wrong high-water mark", vhwm[cur]>>)
   /\ UNCHANGED <<readers, tree, flp, flc, vhwm, cur, fs, opt, sc>>

TFree == /\ IsEvent("Free")
         /\ Expect(w.open /\ E.txid = w.txid, "Free outside the write transaction")
         /\ LET pg == Run(E.pgid, E.ov + 1) IN
              /\ Expect(pg \subseteq VerPages(cur) \ w.freed, <<"freed pages are not (still) part of the base version (C07)", pg \ (VerPages(cur) \ w.freed)>>)
              /\ Expect(pg \cap w.allocd = {}, "freed a page allocated by the same transaction")
              /\ pend' = pend \cup {<<w.txid, q, E.a>> : q \in pg}
              /\ w' = [w EXCEPT !.freed = @ \cup pg]
         /\ UNCHANGED <<free, readers, tree, flp, flc, vhwm, cur, fs, opt, sc>>

TAlloc == /\ IsEvent("Alloc")
          /\ Expect(w.open /\ E.txid = w.txid /\ ~w.metaEv, "Alloc outside the write transaction")
          /\ LET pg == Run(E.pgid, E.n) IN
               /\ IF E.fromFree
                  THEN /\ Expect(pg \subseteq free, <<"allocated pages that are not free (C09)", pg \ free>>)
                       /\ free' = free \ pg /\ w' = [w EXCEPT !.allocd = @ \cup pg, !.runs = @ \cup {<<E.pgid, E.n>>}, !.pc = @ + E.n]
                  ELSE /\ Expect(E.pgid = w.hwm, <<"allocation at the end does not start at the high-water mark", w.hwm>>)
                       /\ Expect(~HasRun(free, E.n), "file extended although a free run fits (C09/C10)")
                       /\ free' = free
                       /\ w' = [w EXCEPT !.allocd = @ \cup pg, !.runs = @ \cup {<<E.pgid, E.n>>}, !.hwm = @ + E.n, !.pc = @ + E.n]
               /\ Expect(E.hwm = w'.hwm, <<"high-water mark", w'.hwm>>)
               /\ Expect(E.pgid >= 2, "meta page handed out")
               \* an allocation at the end of the file is only admitted if the growth it implies stays within MaxSize
               /\ Expect(E.fromFree \/ opt.maxSize = 0 \/ PredictedFileSize(E.hwm, E.datasz) <= opt.maxSize,
                         <<"allocation admitted although the file would have to grow beyond MaxSize (C18)", PredictedFileSize(E.hwm, E.datasz), opt.maxSize>>)
               /\ Expect(pg \cap Visible = {}, <<"allocated a page of a visible version (C06)", pg \cap Visible>>)
               /\ Expect(pg \cap PP = {}, "allocated a pending page")
          /\ UNCHANGED <<pend, readers, tree, flp, flc, vhwm, cur, fs, opt, sc>>

\* fault injection point "the size-limit check of this allocation at the end of the file fails" (C08): an IO event of
\* kind sizecheck precedes every such allocation; a failed one is followed by an injected AllocRefused
TIOSizeCheck == /\ IsEvent("IO") /\ E.kind = "sizecheck"
                /\ Expect(w.open /\ ~w.metaEv, "allocation at the end of the file outside the write transaction")
                /\ w' = IF E.fail THEN [w EXCEPT !.failed = TRUE] ELSE w
                /\ UNCHANGED <<free, pend, readers, tree, flp, flc, vhwm, cur, fs, opt, sc>>
TAllocRefused == /\ IsEvent("AllocRefused")
                 /\ Expect(w.open /\ (E.injected \/ opt.maxSize > 0), "size refusal without MaxSize")
                 \* ... and it is only refused if it really would not fit
                 /\ LET minsz == (E.hwm + E.n + 1) * opt.ps
                        mm == IF minsz < E.datasz THEN E.datasz ELSE MmapSize(minsz)
                    IN Expect(E.injected \/ GrowSize(mm, minsz, opt.allocSize) > opt.maxSize,
                              <<"allocation refused although the file would stay within MaxSize (C18)", GrowSize(mm, minsz, opt.allocSize), opt.maxSize>>)
                 /\ w' = [w EXCEPT !.failed = TRUE]
                 /\ UNCHANGED <<free, pend, readers, tree, flp, flc, vhwm, cur, fs, opt, sc>>

\* The writer announces the meta page it is about to publish (under metalock).
TMetaWrite ==
   /\ IsEvent("MetaWrite")
   /\ Expect(w.open /\ ~w.metaEv /\ E.txid = w.txid, "unexpected meta write")
   /\ Expect(w.synced, "meta page written before the data pages were synced (C01)")
   /\ Expect(E.slot = w.txid % 2 /\ E.slot # cur % 2, "meta page goes to the slot holding the newest committed meta (C06)")
   /\ Expect(E.hwm = w.hwm, <<"meta high-water mark", w.hwm>>)
   /\ Expect((E.freelist = -1) = opt.noFLSync, "freelist page presence does not match the NoFreelistSync option")
   /\ LET nfl == IF E.freelist = -1 THEN {} ELSE UNION {Run(r[1], r[2]) : r \in {x \in w.runs : x[1] = E.freelist}}
          ntree == (tree[cur] \ w.freed) \cup (w.allocd \ nfl)
      IN /\ Expect(E.freelist = -1 \/ nfl # {}, "freelist page was not allocated by this transaction")
         /\ Expect(E.root \in ntree, "root page is not part of the new tree")
         /\ Expect(flp[cur] \subseteq w.freed, "old freelist page not freed (C07)")
         /\ w' = [w EXCEPT !.metaEv = TRUE, !.nfl = nfl, !.ntree = ntree, !.nflc = free \cup PP, !.hasfl = E.freelist # -1]
   /\ UNCHANGED <<free, pend, readers, tree, flp, flc, vhwm, cur, fs, opt, sc>>

\* ------------------------------------------------------------------ I/O
Pages(off, len) == (off \div opt.ps)..((off + len - 1) \div opt.ps)

TIOInit == /\ IsEvent("IO") /\ ~w.open /\ E.kind = "write" /\ fs.fresh /\ E.off = 0 /\ ~E.fail
           /\ fs' = [fs EXCEPT !.len = E.len, !.fresh = FALSE, !.unsynced = {E.idx}]
           /\ UNCHANGED <<free, pend, readers, tree, flp, flc, vhwm, cur, w, opt, sc>>
TIOIdle == /\ IsEvent("IO") /\ ~w.open /\ E.kind \in {"sync", "mmap"} /\ ~E.fail
           /\ fs' = IF E.kind = "sync" THEN [fs EXCEPT !.unsynced = {}] ELSE fs
           /\ UNCHANGED <<free, pend, readers, tree, flp, flc, vhwm, cur, w, opt, sc>>
TIOMmap == /\ IsEvent("IO") /\ w.open /\ E.kind = "mmap"
           /\ w' = IF E.fail THEN [w EXCEPT !.failed = TRUE] ELSE w
           /\ UNCHANGED <<free, pend, readers, tree, flp, flc, vhwm, cur, fs, opt, sc>>
\* C18: the file is only ever extended up to MaxSize (or not at all if it was already longer).
SizeOK(n) == opt.maxSize > 0 => n <= Max(Max(opt.maxSize, fs.openedLen), fs.len)
TIOTruncate ==
   /\ IsEvent("IO") /\ E.kind = "truncate"
   /\ Expect(w.open /\ ~opt.noGrowSync /\ w.written = {} /\ ~w.metaEv, "unexpected truncate")
   /\ Expect(E.off >= (w.hwm + 1) * opt.ps \/ E.off >= fs.len, "truncate below what the transaction needs")
   /\ Expect(SizeOK(E.off), <<"file grown beyond MaxSize (C18)", opt.maxSize>>)
   /\ IF E.fail THEN /\ w' = [w EXCEPT !.failed = TRUE] /\ fs' = fs
      ELSE /\ w' = [w EXCEPT !.grown = TRUE] /\ fs' = [fs EXCEPT !.len = Max(fs.len, E.off), !.unsynced = @ \cup {E.idx}]
   /\ UNCHANGED <<free, pend, readers, tree, flp, flc, vhwm, cur, opt, sc>>
TIOFsync == /\ IsEvent("IO") /\ E.kind = "fsync"
            /\ Expect(w.open /\ w.grown, "file sync without a preceding truncate")
            /\ w' = IF E.fail THEN [w EXCEPT !.failed = TRUE] ELSE w
            /\ fs' = IF E.fail THEN fs ELSE [fs EXCEPT !.unsynced = {}]
            /\ UNCHANGED <<free, pend, readers, tree, flp, flc, vhwm, cur, opt, sc>>
TIOWriteData ==
   /\ IsEvent("IO") /\ w.open /\ E.kind = "write" /\ E.off >= 2 * opt.ps
   /\ LET pg == Pages(E.off, E.len) IN
        /\ Expect(~w.synced /\ ~w.metaEv, "data page written after the data sync")
        /\ Expect(pg \subseteq w.allocd, <<"write to pages this transaction did not allocate (C06)", pg \ w.allocd>>)
        /\ Expect(pg \cap Visible = {}, <<"write to a page of a visible version (C06)", pg \cap Visible>>)
        /\ Expect(pg \cap w.written = {}, "page written twice")
        /\ Expect(opt.noGrowSync \/ E.off + E.len <= fs.len, <<"write beyond the end of the file without growing it first (C01)", fs.len>>)
        /\ Expect(SizeOK(E.off + E.len), <<"file grown beyond MaxSize by a write (C18)", opt.maxSize>>)
        /\ IF E.fail THEN /\ w' = [w EXCEPT !.failed = TRUE]
                          /\ fs' = [fs EXCEPT !.unsynced = @ \cup {E.idx},
                                              !.len = IF E.short > 0 THEN Max(fs.len, E.off + E.short) ELSE fs.len]
           ELSE /\ w' = [w EXCEPT !.written = @ \cup pg, !.wr = @ + 1]
                /\ fs' = [fs EXCEPT !.len = Max(fs.len, E.off + E.len), !.unsynced = @ \cup {E.idx}]
   /\ UNCHANGED <<free, pend, readers, tree, flp, flc, vhwm, cur, opt, sc>>
\* The meta write is the publication point: from here on db.meta() designates the new version.
TIOWriteMeta ==
   /\ IsEvent("IO") /\ w.open /\ E.kind = "write" /\ E.off < 2 * opt.ps
   /\ Expect(w.metaEv /\ ~w.metaw /\ E.off = (w.txid % 2) * opt.ps /\ E.len = opt.ps, "unexpected write to a meta page (C06)")
   \* a failed write that still put the whole 80-byte header + meta structure into the page cache has
   \* published the new meta; a shorter prefix leaves a torn (invalid) copy in the slot of the OLDER meta
   /\ LET written == ~E.fail \/ E.short >= 80 IN
      IF ~written
      THEN /\ w' = [w EXCEPT !.failed = TRUE] /\ UNCHANGED <<tree, flp, flc, vhwm, cur>>
           /\ fs' = fs
      ELSE /\ w' = [w EXCEPT !.metaw = TRUE, !.failed = E.fail]
           /\ tree' = Put(tree, w.txid, w.ntree) /\ flp' = Put(flp, w.txid, w.nfl)
           /\ flc' = Put(flc, w.txid, w.nflc) /\ vhwm' = Put(vhwm, w.txid, w.hwm)
           /\ cur' = w.txid
           /\ fs' = [fs EXCEPT !.volMeta = w.txid, !.unsynced = @ \cup {E.idx}]
   /\ UNCHANGED <<free, pend, readers, opt, sc>>
TIOSync ==
   /\ IsEvent("IO") /\ w.open /\ E.kind = "sync"
   /\ IF ~w.synced
      THEN /\ Expect(w.written = w.allocd, <<"data sync before all dirty pages were written", w.allocd \ w.written>>)
           /\ IF E.fail THEN w' = [w EXCEPT !.failed = TRUE] /\ fs' = fs
              ELSE w' = [w EXCEPT !.synced = TRUE] /\ fs' = [fs EXCEPT !.unsynced = {}]
      ELSE /\ Expect(w.metaw /\ ~w.msynced, "unexpected sync")
           /\ IF E.fail THEN w' = [w EXCEPT !.failed = TRUE] /\ fs' = fs
              ELSE w' = [w EXCEPT !.msynced = TRUE] /\ fs' = [fs EXCEPT !.unsynced = {}, !.durMeta = w.txid, !.volMeta = 0]
   /\ UNCHANGED <<free, pend, readers, tree, flp, flc, vhwm, cur, opt, sc>>

\* ------------------------------------------------------------------ end of the write transaction
TCommitDone == /\ IsEvent("CommitDone")
               /\ Expect(w.open /\ w.metaw /\ w.msynced /\ ~w.failed /\ E.txid = w.txid, "commit reported done without written and synced meta (C01)")
               /\ w' = [w EXCEPT !.done = TRUE, !.wr = @ + 1]
               /\ UNCHANGED <<free, pend, readers, tree, flp, flc, vhwm, cur, fs, opt, sc>>

MinePend == {r \in pend : r[1] = w.txid}
TRollbackUser ==
   /\ IsEvent("RollbackUser")
   /\ Expect(w.open /\ ~w.metaEv /\ w.allocd = {}, "user rollback after allocations")
   /\ pend' = pend \ MinePend
   /\ Expect(ToSet(E.free) = free /\ PendOf(E.pend) = pend', "rollback did not restore the free list exactly (C09)")
   /\ w' = [w EXCEPT !.done = TRUE, !.rolled = TRUE]
   /\ UNCHANGED <<free, readers, tree, flp, flc, vhwm, cur, fs, opt, sc>>

\* Physical rollback (tx.go:323-343): drop this transaction's pending records, then reload the
\* free list from the committed state.  C08: afterwards the page space is partitioned again and
\* nothing an open reader can reach is free.  If the meta page had already been written (failed
\* final sync) the transaction is present: the new version is the committed one.
TRollbackPhysical ==
   /\ IsEvent("RollbackPhysical")
   /\ Expect(w.open /\ ~w.done /\ E.txid = w.txid, "physical rollback outside a failing transaction")
   /\ LET lf == ToSet(E.free) lp == PendOf(E.pend) IN
      /\ IF cur # w.txid
         THEN /\ Expect(lp = pend \ MinePend, <<"pending records after rollback", pend \ MinePend>>)
              /\ Expect(E.nomap \/ lf = (IF flp[cur] # {} THEN ReloadFromPage(flc[cur], lp) ELSE ReloadByScan(vhwm[cur], tree[cur], lp)),
                        <<"free list after rollback differs from the committed one (C08)",
                          IF flp[cur] # {} THEN ReloadFromPage(flc[cur], lp) ELSE ReloadByScan(vhwm[cur], tree[cur], lp)>>)
         ELSE /\ Expect(lp \subseteq pend, "pending records invented")
      /\ Expect(lf \cap Visible = {}, <<"after the failed commit a page of a visible version is free (C08)", lf \cap Visible>>)
      /\ Expect(E.nomap \/ PartitionOK(vhwm[cur], tree[cur], flp[cur], lf, PendPages(lp)), "page accounting broken after the failed commit (C08)")
      /\ free' = lf /\ pend' = lp
   /\ w' = [w EXCEPT !.done = TRUE, !.rolled = TRUE]
   /\ UNCHANGED <<readers, tree, flp, flc, vhwm, cur, fs, opt, sc>>

NeededVersions == {cur} \cup RTx(readers)
TEndWrite ==
   /\ IsEvent("EndWrite")
   /\ Expect(w.open /\ w.done, "writer closed without commit or rollback")
   /\ Expect(ToSet(E.free) = free /\ PendOf(E.pend) = pend, <<"free list at writer close", free, pend>>)
   /\ Expect(E.freeN = Cardinality(free) /\ E.pendN = Cardinality(pend), "published counts differ from the sets (C07)")
   /\ Expect(Cardinality(PP) = Cardinality(pend), "a page is pending twice")
   /\ Expect(E.nomap \/ PartitionOK(vhwm[cur], tree[cur], flp[cur], free, PP), "page space not partitioned after the transaction (C07)")
   /\ Expect(free \cap Visible = {}, "free page in a visible version")
   /\ Expect(FreeDisjoint /\ NoMeta, "a page is both free and pending, or a meta page is free / pending (C09)")
   /\ Expect((w.quiet /\ ~w.rolled) => \A r \in pend : r[1] = w.txid, <<"pages of older transactions still pending although no reader was open at begin (C10)", {r \in pend : r[1] # w.txid}>>)
   \* tx.close publishes the free-list numbers and merges the transaction's counters (committed or not)
   /\ sc' = [sc EXCEPT !.pc = @ + w.pc, !.wr = @ + w.wr, !.freeN = Cardinality(free), !.pendN = Cardinality(pend),
                       !.alloc = (Cardinality(free) + Cardinality(pend)) * opt.ps,
                       !.inuse = FreelistBytes(Cardinality(free) + Cardinality(pend))]
   /\ w' = NoW
   /\ tree' = Keep(tree, NeededVersions) /\ flp' = Keep(flp, NeededVersions)
   /\ flc' = Keep(flc, NeededVersions) /\ vhwm' = Keep(vhwm, NeededVersions)
   /\ UNCHANGED <<free, pend, readers, cur, fs, opt>>

\* ------------------------------------------------------------------ observations (probes)
TDecoded ==
   /\ IsEvent("Decoded")
   /\ Expect(~w.open, "decoder run while a writer is open")
   /\ Expect(E.txid = cur /\ E.hwm = vhwm[cur], <<"decoded meta", cur, vhwm[cur]>>)
   /\ Expect(ToSet(E.tree) = tree[cur], <<"reachable pages differ from the specification's tree (C07)", tree[cur]>>)
   /\ Expect(ToSet(E.fl) = flp[cur], <<"freelist page run", flp[cur]>>)
   /\ Expect(E.multi = <<>> /\ E.problems = <<>>, "decoder found structural problems (C07)")
   /\ Expect(flp[cur] = {} \/ (ToSet(E.free) = flc[cur] /\ Len(E.free) = Cardinality(flc[cur])), <<"freelist page content", flc[cur]>>)
   /\ Expect(E.fileLen >= vhwm[cur] * opt.ps, "file shorter than the high-water mark (C07)")
   /\ Expect(E.fileLen = fs.len, <<"file length", fs.len>>)
   /\ Expect(opt.maxSize > 0 => E.fileLen <= Max(opt.maxSize, fs.openedLen), "file longer than MaxSize (C18)")
   /\ UNCHANGED <<free, pend, readers, tree, flp, flc, vhwm, cur, w, fs, opt, sc>>

TStats == /\ IsEvent("Stats")
          /\ Expect(w.open \/ (E.freeN = Cardinality(free) /\ E.pendN = Cardinality(PP)), <<"DB.Stats", Cardinality(free), Cardinality(PP)>>)
          \* the published numbers are exactly those of the last closed writer / of loading the free list
          /\ Expect(w.open \/ (E.freeN = sc.freeN /\ E.pendN = sc.pendN /\ E.freeAlloc = sc.alloc /\ E.freelistInuse = sc.inuse),
                    <<"DB.Stats free-list numbers; specification says", sc.freeN, sc.pendN, sc.alloc, sc.inuse>>)
          /\ Expect(w.open \/ (E.txN = sc.txn /\ E.openTxN = sc.open), <<"DB.Stats read-transaction counters; specification says", sc.txn, sc.open>>)
          /\ Expect(w.open \/ (E.pageCount = sc.pc /\ E.pageAlloc = sc.pc * opt.ps /\ E.write = sc.wr),
                    <<"DB.Stats TxStats: pages allocated / bytes / write calls; specification says", sc.pc, sc.pc * opt.ps, sc.wr>>)
          /\ LET now == [split |-> E.split, spill |-> E.spill, rebalance |-> E.rebalance, nodes |-> E.nodes, deref |-> E.deref, cursors |-> E.cursors] IN
               /\ Expect(\A f \in DOMAIN now : now[f] >= sc.last[f], <<"a statistics counter went backwards", sc.last>>)
               /\ sc' = [sc EXCEPT !.last = now]
          /\ UNCHANGED <<free, pend, readers, tree, flp, flc, vhwm, cur, w, fs, opt>>
TCheck == /\ IsEvent("Check")
          /\ Expect(E.errors = 0, "Tx.Check reports errors on a state produced by committed transactions (C07/C19)")
          /\ UNCHANGED <<free, pend, readers, tree, flp, flc, vhwm, cur, w, fs, opt, sc>>

\* C01: one reconstructed post-crash image.  `persisted` = the unsynced writes (by I/O index) that reached
\* the disk completely, `partial` those that reached it in part; the in-flight meta write is
\* old | new | torn.  The real code opened the image; `obs` is what it presented.
TCrashProbe ==
   /\ IsEvent("CrashProbe")
   /\ Expect(ToSet(E.persisted) \cup ToSet(E.partial) \subseteq fs.unsynced, <<"probe persists writes that are not unsynced", fs.unsynced>>)
   /\ LET expected == IF fs.volMeta # 0 /\ E.meta = "new" THEN fs.volMeta ELSE fs.durMeta IN
        /\ Expect(E.obs.opened, "recovery failed to open the crash image (C01)")
        /\ Expect(E.obs.txid = expected, <<"recovered to a wrong version (C01); expected", expected>>)
        /\ Expect(E.obs.content = E.versions[ToString(expected)], "recovered content differs from the acknowledged / in-flight state (C01)")
        /\ Expect(E.obs.checkErrs = 0 /\ E.obs.decodeProblems = 0, "recovered database fails its integrity check (C01)")
        /\ Expect(E.obs.followUp, "recovered database does not accept a further transaction (C01)")
   /\ UNCHANGED <<free, pend, readers, tree, flp, flc, vhwm, cur, w, fs, opt, sc>>

TNext == \/ TReset \/ TReopen \/ TLoadPage \/ TLoadScan \/ TBeginRead \/ TEndRead \/ TBeginWrite \/ TFree \/ TAlloc
         \/ TAllocRefused \/ TIOSizeCheck \/ TMetaWrite \/ TIOInit \/ TIOIdle \/ TIOMmap \/ TIOTruncate \/ TIOFsync \/ TIOWriteData
         \/ TIOWriteMeta \/ TIOSync \/ TCommitDone \/ TRollbackUser \/ TRollbackPhysical \/ TEndWrite
         \/ TDecoded \/ TStats \/ TCheck \/ TCrashProbe
TSpec == TInit /\ [][TNext]_bvars


HighWater == TLCSet(1, IF TLCGet(1) < l THEN l ELSE TLCGet(1))
Accepted == IF TLCGet(1) = Len(Trace) + 1 THEN TRUE
            ELSE PrintT(<<"REJECTED at line", TLCGet(1), IF TLCGet(1) <= Len(Trace) THEN Trace[TLCGet(1)] ELSE "end">>) /\ FALSE
ASSUME TLCSet(1, 0)
=============================================================================
