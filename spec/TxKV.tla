------------------------------- MODULE TxKV -------------------------------
(***************************************************************************)
(* L1: MVCC transactions over the logical model KV.                        *)
(*                                                                         *)
(* One action per linearization point of the code:                         *)
(*   BeginCall   db.Begin(false) has been entered (lower bound for the     *)
(*               version a reader may observe)                             *)
(*   BeginRead   db.go:792-837  reader copies the meta under metalock      *)
(*   LockWriter  db.go:839-872  writer holds rwlock, txid = last + 1       *)
(*   BindWriter  the API handle returned by Begin(true)                    *)
(*   DoOp        one Bucket/Tx API call                                    *)
(*   Publish     tx.go:595-612 the writer's meta page is written under     *)
(*               metalock: from here on new readers see the new version    *)
(*   EndCommit / EndCommitFail / Rollback / EndRead / UnlockWriter         *)
(*   Reopen      Close + Open                                              *)
(* and cursor steps.  The trace specification TraceKV binds the logged     *)
(* arguments and results of the real code to these actions.                *)
(***************************************************************************)
EXTENDS KV

VARIABLES store,      \* the committed root (what db.meta() designates)
          lastTxid,   \* txid of `store`
          ver,        \* txid -> root, versions a reader may still begin on
          tx,         \* handle -> transaction record
          cur,        \* cursor id -> [h, path, pos, valid]
          wlock,      \* txid of the writer holding rwlock, 0 if free
          last        \* result of the last step (output only; hidden by the VIEW)
vars == <<store, lastTxid, ver, tx, cur, wlock, last>>

NoTx == [st |-> "none", w |-> FALSE, id |-> 0, root |-> Empty, pub |-> FALSE, lo |-> 0]
NoRes == [res |-> "none", out |-> NilV]

Handles == DOMAIN tx
OpenWriters == {h \in Handles : tx[h].st = "open" /\ tx[h].w}

Init0(H) == /\ store = Empty /\ lastTxid = 1 /\ ver = (1 :> Empty)
            /\ tx = [h \in H |-> NoTx] /\ cur = <<>> /\ wlock = 0 /\ last = NoRes

\* ---------------------------------------------------------------- begin
BeginCall(h) == /\ tx[h].st \in {"none", "closed", "calling"}      \* "calling": the previous Begin failed
                /\ tx' = [tx EXCEPT ![h] = [NoTx EXCEPT !.st = "calling", !.lo = lastTxid]]
                /\ cur' = [c \in {x \in DOMAIN cur : cur[x].h # h} |-> cur[c]]
                /\ last' = NoRes /\ UNCHANGED <<store, lastTxid, ver, wlock>>

\* A reader observes exactly one committed version: the newest one published before
\* it copied the meta, i.e. some id between the call and the return (sequentially: lastTxid).
BeginRead(h, id) == /\ tx[h].st = "calling"
                    /\ id \in DOMAIN ver /\ id >= tx[h].lo /\ id <= lastTxid
                    /\ tx' = [tx EXCEPT ![h] = [st |-> "open", w |-> FALSE, id |-> id, root |-> ver[id],
                                                 pub |-> FALSE, lo |-> 0]]
                    /\ last' = NoRes /\ UNCHANGED <<store, lastTxid, ver, cur, wlock>>

\* rwlock acquired: at most one writer (C03); its id is the successor of the committed one.
LockWriter(id) == /\ wlock = 0 /\ id = lastTxid + 1
                  /\ wlock' = id /\ last' = NoRes /\ UNCHANGED <<store, lastTxid, ver, tx, cur>>
UnlockWriter(id) == /\ wlock = id /\ id # 0
                    /\ wlock' = 0 /\ last' = NoRes /\ UNCHANGED <<store, lastTxid, ver, tx, cur>>

\* The writer reads everything committed before it plus its own changes.
\* (A rolled-back writer's handle may still be open in the driver's view when the next writer,
\*  which gets the same id, is already bound: the lock, not the handle, is what serialises writers.)
BindWriter(h, id) == /\ tx[h].st = "calling" /\ wlock = id
                     /\ id = lastTxid + 1
                     /\ tx' = [tx EXCEPT ![h] = [st |-> "open", w |-> TRUE, id |-> id, root |-> store,
                                                  pub |-> FALSE, lo |-> 0]]
                     /\ last' = NoRes /\ UNCHANGED <<store, lastTxid, ver, cur, wlock>>

\* ---------------------------------------------------------------- operations
\* closed transaction -> ErrTxClosed; read-only -> ErrTxNotWritable; then KV!Apply
OpResult(t, o) ==
   IF o.op \in WriteOps /\ t.st = "closed" THEN R(t.root, "ErrTxClosed", NilV)
   ELSE IF o.op \in WriteOps /\ ~t.w THEN R(t.root, "ErrTxNotWritable", NilV)
   ELSE Apply(t.root, o)

OpEnabled(h, o) == /\ tx[h].st \in {"open", "closed"}
                   /\ (tx[h].st = "closed" => o.op \in WriteOps)     \* reads on a closed tx are not part of the API contract
                   /\ WellFormed(tx[h].root, o)

Invalidate(h, o) == [c \in DOMAIN cur |->
                       IF cur[c].h = h /\ Touches(o, cur[c].path) THEN [cur[c] EXCEPT !.valid = FALSE] ELSE cur[c]]

DoOp(h, o) == /\ OpEnabled(h, o)
              /\ LET r == OpResult(tx[h], o) IN
                   /\ tx' = [tx EXCEPT ![h].root = r.root]
                   /\ last' = [res |-> r.res, out |-> r.out]
                   /\ cur' = IF r.res = "ok" /\ o.op \in WriteOps THEN Invalidate(h, o) ELSE cur
              /\ UNCHANGED <<store, lastTxid, ver, wlock>>

\* ---------------------------------------------------------------- commit / rollback
\* Versions that may still be needed: those a reader that is between BeginCall and
\* BeginRead may legitimately pick.
\* (the predecessor of a new version is kept until the next publication: a commit whose final sync
\*  fails may still turn out to be absent)
Needed(newid) == LET los == {tx[h].lo : h \in {x \in Handles : tx[x].st = "calling"}} \cup {newid - 1}
                     m == CHOOSE x \in los : \A y \in los : x <= y
                 IN {i \in (DOMAIN ver) \cup {newid} : i >= m}

Publish(h) == /\ tx[h].st = "open" /\ tx[h].w /\ ~tx[h].pub /\ wlock = tx[h].id
              /\ store' = tx[h].root /\ lastTxid' = tx[h].id
              /\ ver' = [i \in Needed(tx[h].id) |-> IF i = tx[h].id THEN tx[h].root ELSE ver[i]]
              /\ tx' = [tx EXCEPT ![h].pub = TRUE]
              /\ last' = NoRes /\ UNCHANGED <<cur, wlock>>

\* A write transaction the library runs on its own (db.go:311-323: the freelist flush in Open):
\* it publishes a new txid with unchanged content.
InternalCommit(id) == /\ wlock = id /\ id = lastTxid + 1
                      /\ \A g \in Handles : ~(tx[g].st = "open" /\ tx[g].w /\ tx[g].id = id /\ ~tx[g].pub)
                      /\ lastTxid' = id
                      /\ ver' = [i \in Needed(id) |-> IF i = id THEN store ELSE ver[i]]
                      /\ last' = NoRes /\ UNCHANGED <<store, tx, cur, wlock>>

EndCommit(h) == /\ tx[h].st = "open" /\ tx[h].w /\ tx[h].pub
                /\ tx' = [tx EXCEPT ![h].st = "closed"]
                /\ last' = NoRes /\ UNCHANGED <<store, lastTxid, ver, cur, wlock>>

\* A commit that fails before its meta page is written changes nothing (C08).
EndCommitFail(h) == /\ tx[h].st = "open" /\ tx[h].w /\ ~tx[h].pub
                    /\ tx' = [tx EXCEPT ![h].st = "closed"]
                    /\ last' = NoRes /\ UNCHANGED <<store, lastTxid, ver, cur, wlock>>

\* The one exception (C08): the final sync fails after the meta page was written.
\* The transaction is then entirely present (nothing to do) or entirely absent.
EndCommitFailPublished(h, present) ==
                 /\ tx[h].st = "open" /\ tx[h].w /\ tx[h].pub
                 /\ tx' = [tx EXCEPT ![h].st = "closed"]
                 /\ IF present THEN UNCHANGED <<store, lastTxid, ver>>
                    ELSE /\ (tx[h].id - 1) \in DOMAIN ver
                         /\ store' = ver[tx[h].id - 1] /\ lastTxid' = tx[h].id - 1
                         /\ ver' = [i \in (DOMAIN ver) \ {tx[h].id} |-> ver[i]]
                 /\ last' = NoRes /\ UNCHANGED <<cur, wlock>>

\* Rollback, Update returning an error, Update panicking: nothing becomes visible.
Rollback(h) == /\ tx[h].st = "open" /\ tx[h].w /\ ~tx[h].pub
               /\ tx' = [tx EXCEPT ![h].st = "closed"]
               /\ last' = NoRes /\ UNCHANGED <<store, lastTxid, ver, cur, wlock>>

EndRead(h) == /\ tx[h].st = "open" /\ ~tx[h].w
              /\ tx' = [tx EXCEPT ![h].st = "closed"]
              /\ last' = NoRes /\ UNCHANGED <<store, lastTxid, ver, cur, wlock>>

Quiescent == \A h \in Handles : tx[h].st \in {"none", "closed", "calling"}
Reopen == /\ Quiescent /\ wlock = 0
          /\ tx' = [h \in Handles |-> NoTx] /\ cur' = <<>>
          /\ ver' = (lastTxid :> store)
          /\ last' = NoRes /\ UNCHANGED <<store, lastTxid, wlock>>

\* ---------------------------------------------------------------- cursors
NewCursor(c, h, p) == /\ c \notin DOMAIN cur /\ tx[h].st = "open" /\ ValidPath(tx[h].root, p)
                      /\ cur' = (c :> [h |-> h, path |-> p, pos |-> Unset, valid |-> TRUE]) @@ cur
                      /\ last' = NoRes /\ UNCHANGED <<store, lastTxid, ver, tx, wlock>>

CurBucket(c) == At(tx[cur[c].h].root, cur[c].path)

CurOp(c, op, arg) ==
   /\ c \in DOMAIN cur /\ tx[cur[c].h].st = "open"
   /\ ValidPath(tx[cur[c].h].root, cur[c].path)
   /\ (cur[c].valid \/ op \in {"First", "Last", "Seek"})        \* "reposition your cursor after mutating data"
   /\ LET s == CurStep(CurBucket(c), cur[c].pos, op, arg) IN
        /\ cur' = [cur EXCEPT ![c].pos = s.pos, ![c].valid = TRUE]
        /\ last' = [res |-> "ok", out |-> s.k]
   /\ UNCHANGED <<store, lastTxid, ver, tx, wlock>>

\* Cursor.Delete (cursor.go:140-157): deletes the key under the cursor.
CurDelete(c) ==
   /\ c \in DOMAIN cur /\ cur[c].valid /\ tx[cur[c].h].st = "open"
   /\ LET h == cur[c].h b == CurBucket(c) ks == Keys(b) IN
        /\ cur[c].pos \in 1..Len(ks)
        /\ LET k == ks[cur[c].pos] IN
           IF ~tx[h].w THEN /\ last' = [res |-> "ErrTxNotWritable", out |-> NilV] /\ UNCHANGED <<tx, cur>>
           ELSE IF IsB(b, k) THEN /\ last' = [res |-> "ErrIncompatibleValue", out |-> NilV] /\ UNCHANGED <<tx, cur>>
           ELSE /\ tx' = [tx EXCEPT ![h].root = SetAt(tx[h].root, cur[c].path, Without(b, k))]
                /\ cur' = [x \in DOMAIN cur |-> IF cur[x].h = h /\ cur[x].path = cur[c].path
                                                THEN [cur[x] EXCEPT !.valid = FALSE] ELSE cur[x]]
                /\ last' = [res |-> "ok", out |-> NilV]
   /\ UNCHANGED <<store, lastTxid, ver, wlock>>

\* ---------------------------------------------------------------- derived files (C14, C15)
\* A hot backup (Tx.WriteTo / CopyFile, tx.go:389-498) taken through transaction h is a database whose
\* content is exactly h's snapshot, however many writers commit while the copy is running.
BackupContent(h) == tx[h].root
\* Compaction (compact.go:8-118) of the committed state, for every transaction-size limit.
CompactContent == Compacted(store)

\* ---------------------------------------------------------------- properties
\* C02: while a read transaction stays open its view never changes.
ReaderStable == [][\A h \in Handles : (tx[h].st = "open" /\ ~tx[h].w /\ tx'[h].st = "open") => tx'[h].root = tx[h].root]_vars
\* C02/C03: a reader's id identifies the version it reads.
ReaderSeesVersion == \A h \in Handles : (tx[h].st = "open" /\ ~tx[h].w /\ tx[h].id \in DOMAIN ver) => tx[h].root = ver[tx[h].id]
\* C03: one writer; the committed state only changes by Publish of the lock holder, by exactly one id.
SingleWriter == \A g, h \in OpenWriters : (~tx[g].pub /\ ~tx[h].pub) => g = h
TxidStep == [][lastTxid' \in {lastTxid, lastTxid + 1, lastTxid - 1}]_vars
StoreOnlyByPublish == [][store' # store => \E h \in Handles : tx[h].w /\ tx[h].st = "open"]_vars
StoreIsLastVersion == lastTxid \in DOMAIN ver /\ ver[lastTxid] = store
\* C04: an operation that reports an error leaves the transaction's view unchanged.
ErrorsChangeNothing == [][\A h \in Handles : (last'.res \notin {"ok", "none"}) => tx'[h].root = tx[h].root]_vars
=============================================================================
