----------------------------- MODULE MC_TxKV -----------------------------
(***************************************************************************)
(* Closed-system instance of TxKV for (a) exhaustive model checking of the *)
(* logical transaction semantics on a small universe and (b) generation of *)
(* API programs (`-simulate`) that the harness replays against the real    *)
(* code.  `hist` carries the program in the vocabulary of the trace files, *)
(* together with the result the specification expects for every call.      *)
(***************************************************************************)
EXTENDS TxKV, Json

CONSTANTS K,           \* ordinary keys 1..K
          NVals,       \* values 0..NVals-1 (0 = empty value)
          MaxDepth,    \* nesting depth of buckets
          MaxSeq,      \* bound on sequence numbers
          MaxCommits,  \* bound on committed write transactions
          NReaders,    \* reader handles 2..NReaders+1 (handle 1 is the writer)
          MaxOps,      \* operations per transaction
          MaxCur,      \* cursors per behaviour
          Sequential,  \* TRUE: a reader begins on the newest version (replayable programs)
          WithErrKeys, \* TRUE: also the empty and the oversized key
          EmitDepth    \* > 0: print hist as JSON when a behaviour reaches this length

VARIABLES nops, ncommit, hist
mcvars == <<vars, nops, ncommit, hist>>

W == 1
H == 1..(NReaders + 1)
KeysN == 1..K
KeysX == IF WithErrKeys THEN KeysN \cup {EmptyKey, BigKey} ELSE KeysN
Vals == 0..(NVals - 1)

RECURSIVE Height(_)
Height(b) == LET bs == {k \in DOMAIN b.ents : b.ents[k].t = "b"} IN
             IF bs = {} THEN 0
             ELSE 1 + (LET hs == {Height(b.ents[k].b) : k \in bs} IN CHOOSE x \in hs : \A y \in hs : y <= x)

O(op, p, k, v, d) == [op |-> op, path |-> p, k |-> k, v |-> v, dst |-> d]

OpDomain(root) ==
  LET ps == Paths(root, <<>>)
      nps == ps \ {<<>>}
  IN    {O("CreateBucket", p, k, 0, <<>>) : p \in {q \in ps : Len(q) < MaxDepth}, k \in KeysN \cup (IF WithErrKeys THEN {EmptyKey} ELSE {})}
   \cup {O("CreateBucketIfNotExists", p, k, 0, <<>>) : p \in {q \in ps : Len(q) < MaxDepth}, k \in KeysN}
   \cup {O("DeleteBucket", p, k, 0, <<>>) : p \in ps, k \in KeysN}
   \cup UNION {UNION {{O("MoveBucket", p, k, 0, q) :
              q \in {x \in ps : IsB(At(root, p), k) => Len(x) + 1 + Height(At(root, p).ents[k].b) <= MaxDepth}} :
              k \in KeysN} : p \in ps}
   \cup {O("Put", p, k, v, <<>>) : p \in nps, k \in KeysX, v \in Vals}
   \cup {O("Get", p, k, 0, <<>>) : p \in nps, k \in KeysN}
   \cup {O("Delete", p, k, 0, <<>>) : p \in nps, k \in KeysN}
   \cup {O("NextSequence", p, 0, 0, <<>>) : p \in {q \in nps : At(root, q).seq < MaxSeq}}
   \cup {O("SetSequence", p, 0, v, <<>>) : p \in nps, v \in 0..MaxSeq}
   \cup {O("Sequence", p, 0, 0, <<>>) : p \in nps}
   \cup {O("Lookup", p, k, 0, <<>>) : p \in ps, k \in KeysN}
   \cup {O("CountKeys", p, 0, 0, <<>>) : p \in nps}

Ev(e) == hist' = Append(hist, e)
NoEv == hist' = hist

MCInit == /\ Init0(H) /\ nops = 0 /\ ncommit = 0 /\ hist = <<>>

\* ---- writer: Begin(true) = BeginCall ; LockWriter ; BindWriter
WBegin == /\ ncommit < MaxCommits /\ BeginCall(W) /\ nops' = nops /\ ncommit' = ncommit /\ NoEv
WLock  == /\ tx[W].st = "calling" /\ LockWriter(lastTxid + 1) /\ UNCHANGED <<nops, ncommit>> /\ NoEv
WBind  == /\ BindWriter(W, wlock) /\ nops' = 0 /\ ncommit' = ncommit
          /\ Ev([ev |-> "Begin", h |-> W, w |-> TRUE, txid |-> wlock])
WOp    == /\ tx[W].st = "open" /\ ~tx[W].pub /\ nops < MaxOps
          /\ \E o \in OpDomain(tx[W].root) :
               /\ DoOp(W, o)
               /\ Ev([ev |-> "Op", h |-> W, op |-> o.op, path |-> o.path, k |-> o.k, v |-> o.v, dst |-> o.dst,
                      res |-> last'.res, out |-> last'.out])
          /\ nops' = nops + 1 /\ ncommit' = ncommit
\* a write operation through a handle of a closed or read-only transaction
BadOp(h) == /\ nops < MaxOps
            /\ \/ tx[h].st = "closed"
               \/ tx[h].st = "open" /\ ~tx[h].w
            /\ \E o \in {x \in OpDomain(tx[h].root) : x.op \in WriteOps} :
               /\ DoOp(h, o)
               /\ Ev([ev |-> "Op", h |-> h, op |-> o.op, path |-> o.path, k |-> o.k, v |-> o.v, dst |-> o.dst,
                      res |-> last'.res, out |-> last'.out])
            /\ nops' = nops + 1 /\ ncommit' = ncommit
ROp(h) == /\ tx[h].st = "open" /\ ~tx[h].w
          /\ \E o \in {x \in OpDomain(tx[h].root) : x.op \in ReadOps} :
               /\ DoOp(h, o)
               /\ Ev([ev |-> "Op", h |-> h, op |-> o.op, path |-> o.path, k |-> o.k, v |-> o.v, dst |-> o.dst,
                      res |-> last'.res, out |-> last'.out])
          /\ UNCHANGED <<nops, ncommit>>
\* Commit = Publish ; EndCommit ; UnlockWriter
\* (the program's "End" step is emitted at the publication point, so that the emitted sequence is a
\*  faithful sequential program: a reader that begins after it sees the new version)
WPublish == /\ Publish(W) /\ UNCHANGED <<nops>> /\ ncommit' = ncommit + 1 /\ Ev([ev |-> "End", h |-> W, how |-> "commit"])
WEnd     == /\ EndCommit(W) /\ UNCHANGED <<nops, ncommit>> /\ NoEv
WRollback == /\ \E how \in {"rollback", "fnerr", "panic"} :
                  /\ Rollback(W) /\ Ev([ev |-> "End", h |-> W, how |-> how])
             /\ UNCHANGED <<nops, ncommit>>
WUnlock  == /\ tx[W].st = "closed" /\ wlock # 0 /\ UnlockWriter(wlock) /\ UNCHANGED <<nops, ncommit>> /\ NoEv

\* ---- readers
RCall(h)  == /\ h # W /\ BeginCall(h) /\ UNCHANGED <<nops, ncommit>> /\ NoEv
RBegin(h) == /\ h # W
             /\ \E id \in (IF Sequential THEN {lastTxid} ELSE DOMAIN ver) :
                  /\ BeginRead(h, id)
                  /\ Ev([ev |-> "Begin", h |-> h, w |-> FALSE, txid |-> id])
             /\ UNCHANGED <<nops, ncommit>>
REnd(h)   == /\ h # W /\ EndRead(h) /\ UNCHANGED <<nops, ncommit>> /\ Ev([ev |-> "End", h |-> h, how |-> "rollback"])
\* every open transaction's complete view is observable at any time
Dump(h)   == /\ tx[h].st = "open" /\ UNCHANGED <<vars, nops, ncommit>> /\ Ev([ev |-> "Dump", h |-> h])

MCReopen == /\ Reopen /\ UNCHANGED <<nops, ncommit>> /\ Ev([ev |-> "Reopen"])

\* ---- cursors
NCur == Cardinality(DOMAIN cur)
CNew(h) == /\ MaxCur > 0 /\ NCur < MaxCur /\ tx[h].st = "open"
           /\ \E p \in Paths(tx[h].root, <<>>) :
                LET c == 100 * Len(hist) + 1 IN
                /\ NewCursor(c, h, p) /\ Ev([ev |-> "NewCur", c |-> c, h |-> h, path |-> p])
           /\ UNCHANGED <<nops, ncommit>>
CStep(c) == /\ \E op \in {"First", "Last", "Next", "Prev", "Seek"} : \E a \in (IF op = "Seek" THEN 0..(K + 1) ELSE {0}) :
                /\ CurOp(c, op, a)
                /\ Ev([ev |-> "Cur", c |-> c, op |-> op, arg |-> a, k |-> last'.out,
                       v |-> CurValue(CurBucket(c), last'.out)])
            /\ UNCHANGED <<nops, ncommit>>
CDel(c) == /\ CurDelete(c) /\ Ev([ev |-> "CurDel", c |-> c, res |-> last'.res]) /\ UNCHANGED <<nops, ncommit>>

MCNext == \/ WBegin \/ WLock \/ WBind \/ WOp \/ WPublish \/ WEnd \/ WRollback \/ WUnlock \/ BadOp(W)
          \/ \E h \in H \ {W} : RCall(h) \/ RBegin(h) \/ REnd(h) \/ ROp(h) \/ BadOp(h)
          \/ MCReopen
          \/ \E h \in H : CNew(h)
          \/ \E c \in DOMAIN cur : CStep(c) \/ CDel(c)

\* Dump steps only matter for program generation
SimNext == MCNext \/ \E h \in H : Dump(h)

MCSpec  == MCInit /\ [][MCNext]_mcvars
SimSpec == MCInit /\ [][SimNext]_mcvars

View == <<store, lastTxid, ver, tx, cur, wlock, nops, ncommit>>

Emit == (EmitDepth = 0) \/ (TLCGet("level") < EmitDepth) \/ PrintT(<<"BEH", TLCGet("stats").traces, ToJson(hist)>>)

\* sanity lemmas on the model itself (C04): algebraic facts of the reference model
CompactionPreserves == Compacted(store) = store
=============================================================================
