------------------------------- MODULE Locks -------------------------------
(***************************************************************************)
(* The lock protocol of DB (db.go:145-148): rwlock (one writer), metalock  *)
(* (meta page switch + reader registry), mmaplock (readers hold it shared  *)
(* for their whole life, remap and Close take it exclusively).  Goroutines *)
(* call Begin(false)/Rollback, Begin(true)/Commit (possibly remapping) and *)
(* Close in any interleaving.  TLC's deadlock check shows that no schedule *)
(* blocks forever (C03 "without lost wake-ups", C02 "remap blocked while   *)
(* any reader holds the mmap lock"), under the documented restriction that *)
(* a goroutine holds at most one transaction at a time.                    *)
(* Lock acquisition order in the code (each step below is one Lock/Unlock):*)
(*   beginTx   db.go:792-837   metalock ; mmaplock.R ; -metalock           *)
(*   removeTx  db.go:875-896   -mmaplock.R ; metalock ; -metalock          *)
(*   beginRWTx db.go:839-872   rwlock ; metalock ; -metalock               *)
(*   mmap      db.go:456-458   mmaplock.W ; -mmaplock.W   (writer only)    *)
(*   writeMeta tx.go:606-612   metalock ; -metalock                        *)
(*   tx.close  tx.go:345-395   statlock ; publish freelist statistics ;    *)
(*                             -statlock ; -rwlock                         *)
(*   Close     db.go:694-705   rwlock ; metalock ; mmaplock.W ; release    *)
(* Go's sync.RWMutex blocks new readers while a writer waits (mmWait).     *)
(* Statistics: a closing writer publishes the free-list counts it sampled  *)
(* while it still was the writer.  StatsAfterUnlock = TRUE is the order of *)
(* the pinned tree (publish after -rwlock): the next writer can publish    *)
(* first and is then overwritten by older numbers (StatsFresh fails; the   *)
(* defect repaired by the "fix: freelist statistics ..." commit).          *)
(***************************************************************************)
EXTENDS Integers, FiniteSets, TLC
CONSTANTS NT, MaxOps,     \* goroutines 1..NT, operations per goroutine
          TrackStats,      \* FALSE switches the statistics bookkeeping off (larger configurations)
          StatsAfterUnlock \* FALSE = the code as repaired, TRUE = the pinned order (model mutant)
T == 1..NT
VARIABLES pc, ops, rw, meta, mmR, mmW, mmWait, opened, remapped, readersReg,
          lastW, statOf   \* the goroutine of the newest write transaction ; the goroutine whose statistics are published
vars == <<pc, ops, rw, meta, mmR, mmW, mmWait, opened, remapped, readersReg, lastW, statOf>>
svars == <<lastW, statOf>>

Init == /\ pc = [t \in T |-> "idle"] /\ ops = [t \in T |-> 0] /\ rw = 0 /\ meta = 0 /\ mmR = {} /\ mmW = 0 /\ mmWait = 0
        /\ opened = TRUE /\ remapped = [t \in T |-> FALSE] /\ readersReg = {}
        /\ lastW = 0 /\ statOf = 0

Goto(t, l) == pc' = [pc EXCEPT ![t] = l]
Start(t, l) == /\ pc[t] = "idle" /\ ops[t] < MaxOps /\ ops' = [ops EXCEPT ![t] = @ + 1] /\ Goto(t, l)
               /\ UNCHANGED <<rw, meta, mmR, mmW, mmWait, opened, remapped, readersReg>> /\ UNCHANGED svars
Keep(S) == UNCHANGED S /\ UNCHANGED svars
KeepL(S) == UNCHANGED S

\* ---- read transaction
R1(t) == pc[t] = "r1" /\ meta = 0 /\ meta' = t /\ Goto(t, "r2") /\ Keep(<<ops, rw, mmR, mmW, mmWait, opened, remapped, readersReg>>)
R2(t) == /\ pc[t] = "r2" /\ mmW = 0 /\ mmWait = 0 /\ mmR' = mmR \cup {t}
         /\ IF opened THEN readersReg' = readersReg \cup {t} /\ Goto(t, "r3")
            ELSE readersReg' = readersReg /\ Goto(t, "rx")                    \* ErrDatabaseNotOpen: unlock both and return
         /\ Keep(<<ops, rw, meta, mmW, mmWait, opened, remapped>>)
RX(t) == pc[t] = "rx" /\ mmR' = mmR \ {t} /\ meta' = 0 /\ Goto(t, "idle") /\ Keep(<<ops, rw, mmW, mmWait, opened, remapped, readersReg>>)
R3(t) == pc[t] = "r3" /\ meta' = 0 /\ Goto(t, "r4") /\ Keep(<<ops, rw, mmR, mmW, mmWait, opened, remapped, readersReg>>)
R4(t) == pc[t] = "r4" /\ mmR' = mmR \ {t} /\ Goto(t, "r5") /\ Keep(<<ops, rw, meta, mmW, mmWait, opened, remapped, readersReg>>)
R5(t) == pc[t] = "r5" /\ meta = 0 /\ meta' = t /\ readersReg' = readersReg \ {t} /\ Goto(t, "r6") /\ Keep(<<ops, rw, mmR, mmW, mmWait, opened, remapped>>)
R6(t) == pc[t] = "r6" /\ meta' = 0 /\ Goto(t, "idle") /\ Keep(<<ops, rw, mmR, mmW, mmWait, opened, remapped, readersReg>>)

\* ---- write transaction
W1(t) == pc[t] = "w1" /\ rw = 0 /\ rw' = t /\ Goto(t, "w2") /\ Keep(<<ops, meta, mmR, mmW, mmWait, opened, remapped, readersReg>>)
W2(t) == /\ pc[t] = "w2" /\ meta = 0 /\ meta' = t
         /\ IF opened THEN Goto(t, "w3") ELSE Goto(t, "wx")
         /\ remapped' = [remapped EXCEPT ![t] = FALSE] /\ Keep(<<ops, rw, mmR, mmW, mmWait, opened, readersReg>>)
WX(t) == pc[t] = "wx" /\ meta' = 0 /\ rw' = 0 /\ Goto(t, "idle") /\ Keep(<<ops, mmR, mmW, mmWait, opened, remapped, readersReg>>)
W3(t) == /\ pc[t] = "w3" /\ meta' = 0 /\ Goto(t, "w4") /\ KeepL(<<ops, rw, mmR, mmW, mmWait, opened, remapped, readersReg>>)
         /\ lastW' = (IF TrackStats THEN t ELSE 0) /\ statOf' = statOf
\* in the transaction: commit, roll back, or first remap (allocate at the end of the map)
W4commit(t) == pc[t] = "w4" /\ Goto(t, "w5") /\ Keep(<<ops, rw, meta, mmR, mmW, mmWait, opened, remapped, readersReg>>)
W4rollback(t) == pc[t] = "w4" /\ Goto(t, "w7") /\ Keep(<<ops, rw, meta, mmR, mmW, mmWait, opened, remapped, readersReg>>)
W4remap(t) == /\ pc[t] = "w4" /\ ~remapped[t] /\ mmWait = 0 /\ mmWait' = t /\ Goto(t, "m1")
              /\ remapped' = [remapped EXCEPT ![t] = TRUE] /\ Keep(<<ops, rw, meta, mmR, mmW, opened, readersReg>>)
M1(t) == pc[t] = "m1" /\ mmR = {} /\ mmW = 0 /\ mmW' = t /\ mmWait' = 0 /\ Goto(t, "m2") /\ Keep(<<ops, rw, meta, mmR, opened, remapped, readersReg>>)
M2(t) == pc[t] = "m2" /\ mmW' = 0 /\ Goto(t, "w4") /\ Keep(<<ops, rw, meta, mmR, mmWait, opened, remapped, readersReg>>)
W5(t) == pc[t] = "w5" /\ meta = 0 /\ meta' = t /\ Goto(t, "w6") /\ Keep(<<ops, rw, mmR, mmW, mmWait, opened, remapped, readersReg>>)
W6(t) == pc[t] = "w6" /\ meta' = 0 /\ Goto(t, "w7") /\ Keep(<<ops, rw, mmR, mmW, mmWait, opened, remapped, readersReg>>)
\* tx.close: publish the statistics, release the writer lock - in the order StatsAfterUnlock selects
W7(t) == /\ pc[t] = "w7"
         /\ IF StatsAfterUnlock THEN rw' = 0 /\ Goto(t, "w8") /\ UNCHANGED svars
            ELSE rw' = rw /\ Goto(t, "w8") /\ statOf' = (IF TrackStats THEN t ELSE 0) /\ UNCHANGED lastW
         /\ KeepL(<<ops, meta, mmR, mmW, mmWait, opened, remapped, readersReg>>)
W8(t) == /\ pc[t] = "w8"
         /\ IF StatsAfterUnlock THEN rw' = rw /\ statOf' = (IF TrackStats THEN t ELSE 0) /\ UNCHANGED lastW
            ELSE rw' = 0 /\ UNCHANGED svars
         /\ Goto(t, "idle") /\ KeepL(<<ops, meta, mmR, mmW, mmWait, opened, remapped, readersReg>>)

\* ---- Close
C1(t) == pc[t] = "c1" /\ rw = 0 /\ rw' = t /\ Goto(t, "c2") /\ Keep(<<ops, meta, mmR, mmW, mmWait, opened, remapped, readersReg>>)
C2(t) == pc[t] = "c2" /\ meta = 0 /\ meta' = t /\ Goto(t, "c3") /\ Keep(<<ops, rw, mmR, mmW, mmWait, opened, remapped, readersReg>>)
C3(t) == pc[t] = "c3" /\ mmWait = 0 /\ mmWait' = t /\ Goto(t, "c4") /\ Keep(<<ops, rw, meta, mmR, mmW, opened, remapped, readersReg>>)
C4(t) == pc[t] = "c4" /\ mmR = {} /\ mmW = 0 /\ mmW' = t /\ mmWait' = 0 /\ opened' = FALSE /\ Goto(t, "c5") /\ Keep(<<ops, rw, meta, mmR, remapped, readersReg>>)
C5(t) == pc[t] = "c5" /\ mmW' = 0 /\ meta' = 0 /\ rw' = 0 /\ Goto(t, "idle") /\ Keep(<<ops, mmR, mmWait, opened, remapped, readersReg>>)

Done == /\ \A t \in T : pc[t] = "idle" /\ ops[t] = MaxOps
        /\ UNCHANGED vars

Next == \/ \E t \in T : Start(t, "r1") \/ Start(t, "w1") \/ Start(t, "c1")
        \/ \E t \in T : R1(t) \/ R2(t) \/ RX(t) \/ R3(t) \/ R4(t) \/ R5(t) \/ R6(t)
        \/ \E t \in T : W1(t) \/ W2(t) \/ WX(t) \/ W3(t) \/ W4commit(t) \/ W4rollback(t) \/ W4remap(t) \/ M1(t) \/ M2(t) \/ W5(t) \/ W6(t) \/ W7(t) \/ W8(t)
        \/ \E t \in T : C1(t) \/ C2(t) \/ C3(t) \/ C4(t) \/ C5(t)
        \/ Done
Spec == Init /\ [][Next]_vars /\ WF_vars(Next)

\* C03: at most one writer; C02: the map is never replaced while a reader holds it
Writing == {t \in T : pc[t] \in {"w2", "w3", "w4", "m1", "m2", "w5", "w6", "w7", "wx"} \/ (pc[t] = "w8" /\ ~StatsAfterUnlock)}
OneWriter == Cardinality(Writing) <= 1
NoRemapUnderReaders == mmW # 0 => mmR = {}
MetaExclusive == Cardinality({t \in T : pc[t] \in {"r2", "r3", "rx", "r6", "w3", "wx", "w6"}}) <= 1
\* the published free-list statistics are those of the newest finished write transaction: whenever every write
\* transaction that started has returned, the published numbers are the last one's
StatsFresh == (\A t \in T : pc[t] \notin {"w4", "m1", "m2", "w5", "w6", "w7", "w8"}) => statOf = lastW
\* liveness: every goroutine always gets back to idle
AllReturn == \A t \in T : []<>(pc[t] = "idle")
=============================================================================
