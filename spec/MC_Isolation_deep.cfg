SPECIFICATION Spec
CONSTANTS
  MaxPg = 9
  MaxTx = 5
  MaxReaders = 2
  NoFLSync = FALSE
  EnableCrash = FALSE
  EnableFault = FALSE
  MaxDirty = 2
INVARIANTS SnapshotStable NewestIntact FreeDisjoint NoFreeVisible Partition
PROPERTIES ReleasePolicySafe ReleaseLive TxidStep
CHECK_DEADLOCK FALSE
