------------------------------- MODULE Batch -------------------------------
(***************************************************************************)
(* DB.Batch (db.go:980-1089): callers are appended to the filling batch;   *)
(* a trigger (size reached or timer) detaches it and runs it: one Update   *)
(* calling every function in order; the first failing function is removed  *)
(* (swapped with the last), told to re-run solo, and the rest is retried   *)
(* in a fresh transaction; panics inside a batch are converted to errors.  *)
(* C16: a caller that gets nil has its effects committed exactly once, a   *)
(* caller that gets an error (or whose panic propagates) has none, and one *)
(* caller's failure never changes another caller's outcome.                *)
(***************************************************************************)
EXTENDS Integers, Sequences, FiniteSets, TLC
CONSTANTS N, MaxBatchSize, Patterns
C == 1..N
VARIABLES pc, res, inv, cnt, pat, cur, batches, nextId
\* batches: id -> [calls : Seq(C), st : "filling" | "running" | "done"] ; cur : id of db.batch or 0
vars == <<pc, res, inv, cnt, pat, cur, batches, nextId>>
\* outcome of the k-th invocation (k >= 1) of a function following pattern p
Outcome(p, k) ==
  CASE p = "ok" -> "ok" [] p = "fail1" -> IF k = 1 THEN "err" ELSE "ok" [] p = "fail2" -> IF k = 2 THEN "err" ELSE "ok"
    [] p = "failAll" -> "err" [] p = "panic1" -> IF k = 1 THEN "panic" ELSE "ok" [] p = "panicAll" -> "panic"
Init == /\ pc = [c \in C |-> "idle"] /\ res = [c \in C |-> "none"] /\ inv = [c \in C |-> 0] /\ cnt = [c \in C |-> 0]
        /\ pat \in [C -> Patterns] /\ cur = 0 /\ batches = <<>> /\ nextId = 1
Submit(c) == /\ pc[c] = "idle"
             /\ LET fresh == cur = 0 \/ Len(batches[cur].calls) >= MaxBatchSize
                    id == IF fresh THEN nextId ELSE cur
                    old == IF fresh THEN <<>> ELSE batches[cur].calls
                IN /\ batches' = [b \in (DOMAIN batches) \cup {id} |-> IF b = id THEN [calls |-> Append(old, c), st |-> "filling"] ELSE batches[b]]
                   /\ cur' = id /\ nextId' = IF fresh THEN nextId + 1 ELSE nextId
             /\ pc' = [pc EXCEPT ![c] = "queued"] /\ UNCHANGED <<res, inv, cnt, pat>>
\* the timer may fire at any time; the size trigger too once the batch is full
Trigger(b) == /\ b \in DOMAIN batches /\ batches[b].st = "filling"
              /\ batches' = [batches EXCEPT ![b].st = "running"] /\ cur' = IF cur = b THEN 0 ELSE cur
              /\ UNCHANGED <<pc, res, inv, cnt, pat, nextId>>
RECURSIVE FirstFail(_, _, _)
FirstFail(calls, i, iv) == IF i > Len(calls) THEN 0
                           ELSE IF Outcome(pat[calls[i]], iv[calls[i]] + 1) # "ok" THEN i ELSE FirstFail(calls, i + 1, iv)
\* one iteration of the retry loop = one db.Update
RunStep(b) == /\ b \in DOMAIN batches /\ batches[b].st = "running"
              /\ LET calls == batches[b].calls
                     f == FirstFail(calls, 1, inv)
                     invoked == IF f = 0 THEN {calls[i] : i \in 1..Len(calls)} ELSE {calls[i] : i \in 1..f}
                 IN /\ inv' = [c \in C |-> IF c \in invoked THEN inv[c] + 1 ELSE inv[c]]
                    /\ IF f = 0
                       THEN /\ cnt' = [c \in C |-> IF c \in invoked THEN cnt[c] + 1 ELSE cnt[c]]
                            /\ res' = [c \in C |-> IF c \in invoked THEN "nil" ELSE res[c]]
                            /\ pc' = [c \in C |-> IF c \in invoked THEN "done" ELSE pc[c]]
                            /\ batches' = [batches EXCEPT ![b].st = "done"]
                       ELSE LET n == Len(calls)
                                swapped == [i \in 1..(n - 1) |-> IF i = f THEN calls[n] ELSE calls[i]]
                            IN /\ cnt' = cnt /\ res' = res
                               /\ pc' = [pc EXCEPT ![calls[f]] = "solo"]
                               /\ batches' = [batches EXCEPT ![b] = [calls |-> swapped, st |-> IF n = 1 THEN "done" ELSE "running"]]
              /\ UNCHANGED <<pat, cur, nextId>>
\* the removed caller re-runs its function alone through db.Update
Solo(c) == /\ pc[c] = "solo" /\ inv' = [inv EXCEPT ![c] = @ + 1]
           /\ LET o == Outcome(pat[c], inv[c] + 1) IN
                /\ cnt' = IF o = "ok" THEN [cnt EXCEPT ![c] = @ + 1] ELSE cnt
                /\ res' = [res EXCEPT ![c] = IF o = "ok" THEN "nil" ELSE o]
           /\ pc' = [pc EXCEPT ![c] = "done"] /\ UNCHANGED <<pat, cur, batches, nextId>>
Next == (\E c \in C : Submit(c) \/ Solo(c)) \/ (\E b \in DOMAIN batches : Trigger(b) \/ RunStep(b))
Spec == Init /\ [][Next]_vars /\ WF_vars(Next)
ExactlyOnce == \A c \in C : /\ cnt[c] <= 1
                            /\ (res[c] = "nil" => cnt[c] = 1)
                            /\ (res[c] \in {"err", "panic"} => cnt[c] = 0)
                            /\ (pc[c] = "done" => res[c] # "none")
\* a caller's result depends only on its own function
OwnOutcome == \A c \in C : pc[c] = "done" =>
                 res[c] = (IF Outcome(pat[c], inv[c]) = "ok" THEN "nil" ELSE Outcome(pat[c], inv[c]))
AllFinish == <>(\A c \in C : pc[c] = "done")
=============================================================================
