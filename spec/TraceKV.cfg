SPECIFICATION TSpec
CONSTANT NH = 16
CONSTRAINT HighWater
POSTCONDITION Accepted
CHECK_DEADLOCK FALSE
