SPECIFICATION TSpec
CONSTANT NH = 16
CONSTRAINT HighWater
INVARIANTS ReaderSeesVersion SingleWriter StoreIsLastVersion
POSTCONDITION Accepted
CHECK_DEADLOCK FALSE
