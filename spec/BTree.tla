------------------------------- MODULE BTree -------------------------------
(***************************************************************************)
(* The shape of bbolt's copy-on-write B+trees (node.go:206-448,            *)
(* bucket.go:746-850): what every committed bucket tree must look like,    *)
(* and a small closed model of the node algebra (split by fill percent,    *)
(* rebalance = merge with a sibling, root collapse, removal of empty       *)
(* nodes) that maintains those shape invariants.                           *)
(*                                                                         *)
(* Shape facts come from the harness' independent decoder, one record per  *)
(* reachable page and per bucket:                                          *)
(*   page   [id, kind ("leaf" | "branch"), count, used, cap, depth, bucket,*)
(*           root]        used = header + element headers + keys + values  *)
(*                        cap  = (overflow + 1) * pageSize                 *)
(*                        depth = level inside its own bucket (root = 1)   *)
(*   bucket [id, inline, size, nested, rootLeaf, keys, topLevel]           *)
(*                        size = the inline page the bucket has / would    *)
(*                        have (header + elements + keys + values)         *)
(* ShapeOK is evaluated by TLC on the shapes of real files (EvalFormat).   *)
(***************************************************************************)
EXTENDS Integers, Sequences, FiniteSets, TLC

SeqToSet(s) == {s[i] : i \in 1..Len(s)}

\* every element lies inside its page (C07)
FitsOK(pages) == \A i \in 1..Len(pages) : pages[i].used <= pages[i].cap /\ pages[i].used >= 16
\* all leaves of one bucket are on the same level: splits grow the tree at the root, merges only
\* collapse a root with a single child
BalancedOK(pages) ==
   \A i, j \in 1..Len(pages) :
      (pages[i].kind = "leaf" /\ pages[j].kind = "leaf" /\ pages[i].bucket = pages[j].bucket) => pages[i].depth = pages[j].depth
\* a branch page routes to at least two children (node.go:226-233 splitTwo keeps MinKeysPerPage = 2 on each side;
\* rebalance merges branches with fewer than 3 keys that were touched; a root branch with one child collapses)
BranchOK(pages) == \A i \in 1..Len(pages) : pages[i].kind = "branch" => pages[i].count >= 2
\* only the root of a bucket may be an empty leaf (rebalance removes every other empty node)
LeafOK(pages) == \A i \in 1..Len(pages) : (pages[i].kind = "leaf" /\ ~pages[i].root) => pages[i].count >= 1
\* exactly one root page per paged bucket, on level 1
RootOK(pages) == \A i \in 1..Len(pages) : pages[i].root = (pages[i].depth = 1)
\* inline buckets (bucket.go:804-850): small, bucket-free, a single leaf.  (The converse - nothing that could be
\* inline is left paged - was observed on every generated file but is a space optimisation, not a promise.)
InlineOK(buckets, ps) ==
   \A i \in 1..Len(buckets) :
      LET b == buckets[i] IN b.inline => (~b.nested /\ b.size <= ps \div 4 /\ b.rootLeaf)

ShapeOK(pages, buckets, ps) ==
   /\ FitsOK(pages) /\ BalancedOK(pages) /\ BranchOK(pages) /\ LeafOK(pages) /\ RootOK(pages) /\ InlineOK(buckets, ps)

(***************************************************************************)
(* Bucket.Stats() (bucket.go:624-707) as a function of the same facts.     *)
(* For a bucket t: its subtree Sub(t) = t and every bucket nested below it.*)
(* Page counts, bytes in use, overflow pages, key and bucket counts are    *)
(* sums over Sub(t); Depth(t) = levels of t's own tree + the largest Depth *)
(* of a bucket nested directly in t.                                       *)
(***************************************************************************)
RECURSIVE SumFrom(_, _)
SumFrom(s, i) == IF i > Len(s) THEN 0 ELSE s[i] + SumFrom(s, i + 1)
SumSeq(s, i, F(_)) == SumFrom([j \in 1..Len(s) |-> F(s[j])], i)
BucketOf(buckets, id) == CHOOSE i \in 1..Len(buckets) : buckets[i].id = id
RECURSIVE Under(_, _, _)
Under(buckets, t, id) == id = t \/ (id # 0 /\ Under(buckets, t, buckets[BucketOf(buckets, id)].parent))
Levels1(pages, buckets, id) ==
   IF buckets[BucketOf(buckets, id)].inline THEN 1
   ELSE LET ds == {pages[i].depth : i \in {j \in 1..Len(pages) : pages[j].bucket = id}} IN
        IF ds = {} THEN 0 ELSE CHOOSE m \in ds : \A x \in ds : x <= m
RECURSIVE DepthOf(_, _, _)
DepthOf(pages, buckets, id) ==
   LET kids == {buckets[i].id : i \in {j \in 1..Len(buckets) : buckets[j].parent = id}}
       kd == {DepthOf(pages, buckets, k) : k \in kids}
   IN Levels1(pages, buckets, id) + (IF kd = {} THEN 0 ELSE CHOOSE m \in kd : \A x \in kd : x <= m)
StatsOf(pages, buckets, ps, t) ==
   LET inSub(id) == Under(buckets, t, id)
       leafN(p) == IF p.kind = "leaf" /\ inSub(p.bucket) THEN 1 ELSE 0
       leafOv(p) == IF p.kind = "leaf" /\ inSub(p.bucket) THEN p.cap \div ps - 1 ELSE 0
       leafUse(p) == IF p.kind = "leaf" /\ inSub(p.bucket) THEN p.used ELSE 0
       brN(p) == IF p.kind = "branch" /\ inSub(p.bucket) THEN 1 ELSE 0
       brOv(p) == IF p.kind = "branch" /\ inSub(p.bucket) THEN p.cap \div ps - 1 ELSE 0
       brUse(p) == IF p.kind = "branch" /\ inSub(p.bucket) THEN p.used ELSE 0
       bN(b) == IF inSub(b.id) THEN 1 ELSE 0
       inlN(b) == IF inSub(b.id) /\ b.inline THEN 1 ELSE 0
       inlUse(b) == IF inSub(b.id) /\ b.inline THEN b.size ELSE 0
       keyN(b) == IF inSub(b.id) THEN b.keys ELSE 0
       lp == SumSeq(pages, 1, leafN) lo == SumSeq(pages, 1, leafOv) bp == SumSeq(pages, 1, brN) bo == SumSeq(pages, 1, brOv)
   IN [branchPageN |-> bp, branchOverflowN |-> bo, leafPageN |-> lp, leafOverflowN |-> lo,
       keyN |-> SumSeq(buckets, 1, keyN), depth |-> DepthOf(pages, buckets, t),
       branchAlloc |-> (bp + bo) * ps, branchInuse |-> SumSeq(pages, 1, brUse),
       leafAlloc |-> (lp + lo) * ps, leafInuse |-> SumSeq(pages, 1, leafUse),
       bucketN |-> SumSeq(buckets, 1, bN), inlineBucketN |-> SumSeq(buckets, 1, inlN), inlineBucketInuse |-> SumSeq(buckets, 1, inlUse)]

\* `bbolt stats` (cmd/bbolt/command/command_stats.go): BucketStats.Add over the top-level buckets - every field is
\* the sum, Depth the maximum.  L = the sequence of StatsOf records of the top-level buckets.
AggStats(L) ==
   LET sum(f) == SumFrom([i \in 1..Len(L) |-> L[i][f]], 1)
       ds == {L[i].depth : i \in 1..Len(L)}
   IN [branchPageN |-> sum("branchPageN"), branchOverflowN |-> sum("branchOverflowN"), leafPageN |-> sum("leafPageN"),
       leafOverflowN |-> sum("leafOverflowN"), keyN |-> sum("keyN"),
       depth |-> IF ds = {} THEN 0 ELSE CHOOSE m \in ds : \A x \in ds : x <= m,
       branchAlloc |-> sum("branchAlloc"), branchInuse |-> sum("branchInuse"), leafAlloc |-> sum("leafAlloc"), leafInuse |-> sum("leafInuse"),
       bucketN |-> sum("bucketN"), inlineBucketN |-> sum("inlineBucketN"), inlineBucketInuse |-> sum("inlineBucketInuse"), buckets |-> Len(L)]

(***************************************************************************)
(* Closed model of the node algebra on ONE bucket tree with unit-weight    *)
(* keys: a node holds a number of keys (leaf) or children (branch);        *)
(* Cap keys fit on a page; a commit splits over-full nodes bottom-up and   *)
(* merges under-full ones.  The tree is a sequence of levels, each level a *)
(* sequence of node sizes (children are consecutive: level l node i owns   *)
(* the next sizes[l][i] nodes of level l+1).  TLC checks that every commit *)
(* re-establishes the shape invariants whatever was inserted / deleted.    *)
(***************************************************************************)
CONSTANTS Cap, MaxKeys, MinFill      \* Cap >= 4 ; MinFill = the merge threshold in keys (Cap \div 4)
VARIABLES leaves, dirty              \* leaves: sequence of leaf sizes ; dirty: uncommitted changes pending
mvars == <<leaves, dirty>>
Sum(s) == LET RECURSIVE f(_) f(i) == IF i > Len(s) THEN 0 ELSE s[i] + f(i + 1) IN f(1)

\* split an over-full sequence of node sizes: every node ends with at most Cap and at least 2 entries (node.go:206-260)
RECURSIVE SplitAll(_)
SplitAll(s) == IF s = <<>> THEN <<>>
               ELSE LET h == Head(s) IN
                    IF h <= Cap THEN <<h>> \o SplitAll(Tail(s))
                    ELSE LET first == IF h - Cap >= 2 THEN Cap ELSE h - 2 IN <<first>> \o SplitAll(<<h - first>> \o Tail(s))
\* merge under-full nodes with a neighbour and drop empty ones (node.go:365-448)
RECURSIVE MergeAll(_)
MergeAll(s) == IF Len(s) <= 1 THEN s
               ELSE LET a == s[1] b == s[2] IN
                    IF a = 0 THEN MergeAll(Tail(s))
                    ELSE IF a < MinFill \/ a < 2 THEN MergeAll(<<a + b>> \o SubSeq(s, 3, Len(s)))
                    ELSE <<a>> \o MergeAll(Tail(s))
DropTrailingEmpty(s) == IF Len(s) > 1 /\ s[Len(s)] = 0 THEN SubSeq(s, 1, Len(s) - 1) ELSE s
\* the levels above the leaves: group n children under branches of at most Cap, at least 2 children
RECURSIVE Levels(_)
Levels(n) == IF n <= 1 THEN 0 ELSE 1 + Levels((n + Cap - 1) \div Cap)

MInit == leaves = <<0>> /\ dirty = FALSE
Insert(i, k) == /\ i \in 1..Len(leaves) /\ Sum(leaves) + k <= MaxKeys
                /\ leaves' = [leaves EXCEPT ![i] = @ + k] /\ dirty' = TRUE
Delete(i, k) == /\ i \in 1..Len(leaves) /\ leaves[i] >= k
                /\ leaves' = [leaves EXCEPT ![i] = @ - k] /\ dirty' = TRUE
\* commit = rebalance (merge), then spill (split)
Commit == /\ dirty
          /\ leaves' = LET m == DropTrailingEmpty(MergeAll(leaves)) IN SplitAll(IF m = <<>> THEN <<0>> ELSE m)
          /\ dirty' = FALSE
MNext == (\E i \in 1..4, k \in 1..(2 * Cap) : Insert(i, k) \/ Delete(i, k)) \/ Commit
MSpec == MInit /\ [][MNext]_mvars
\* after every commit: no node over-full; only a lone root may be empty; keys conserved by commit
CommittedShape == ~dirty => /\ \A i \in 1..Len(leaves) : leaves[i] <= Cap
                            /\ (Len(leaves) > 1 => \A i \in 1..Len(leaves) : leaves[i] >= 1)
KeysConserved == [][(dirty /\ ~dirty') => Sum(leaves') = Sum(leaves)]_mvars
HeightLogarithmic == ~dirty => Levels(Len(leaves)) <= 1 + Len(leaves) \div 2
=============================================================================
