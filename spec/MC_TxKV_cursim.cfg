SPECIFICATION SimSpec
CONSTANTS
  K = 6
  NVals = 3
  MaxDepth = 2
  MaxSeq = 1
  MaxCommits = 6
  NReaders = 1
  MaxOps = 7
  MaxCur = 4
  Sequential = TRUE
  WithErrKeys = FALSE
  EmitDepth = 70
INVARIANTS Emit
CHECK_DEADLOCK FALSE
