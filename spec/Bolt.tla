-------------------------------- MODULE Bolt --------------------------------
(***************************************************************************)
(* L2: the page-level engine of bbolt as a closed model that TLC explores  *)
(* exhaustively: two meta slots, copy-on-write trees with opaque content,  *)
(* the free / pending discipline, the two-phase commit (write pages, sync, *)
(* write meta, sync), physical rollback after an injected I/O failure,     *)
(* crashes that persist ANY subset of the unsynced writes (and may tear    *)
(* the meta page), and recovery.                                           *)
(*                                                                         *)
(* One action per critical section of the code (file:line in comments).    *)
(* The predicates the invariants use (ReleaseSafe, PartitionOK, reload     *)
(* rules) are the operators of BoltOps, i.e. the very ones TraceBolt       *)
(* applies to executions of the real code.                                 *)
(*                                                                         *)
(* Page ids 0..MaxPg-1; 0 and 1 are the meta slots.  An image is a tuple:  *)
(*   <<"m", txid, freelist page or NoFL, hwm>>   meta                      *)
(*   <<"t", txid>>                               tree page written by txid *)
(*   <<"f", txid, ids>>                          freelist page             *)
(*   <<"z">> never written        <<"x">> torn                             *)
(***************************************************************************)
EXTENDS BoltOps

CONSTANTS MaxPg,        \* page ids 0..MaxPg-1
          MaxTx,        \* highest transaction id
          MaxReaders,   \* simultaneously open read transactions
          NoFLSync,     \* NoFreelistSync option
          EnableCrash, EnableFault,
          MaxDirty      \* pages rewritten by one transaction

NoFL == -1
VARIABLES disk, vol,          \* durable images ; unsynced writes (sequence of <<page, image>>)
          tree, flp,          \* version -> tree pages ; version -> freelist page or NoFL
          snap,               \* version -> [page -> image] as committed (ghost: what a reader must keep seeing)
          free, pend, allocs, readers, w, acked, crashed, failed
vars == <<disk, vol, tree, flp, snap, free, pend, allocs, readers, w, acked, crashed, failed>>
Nil == [txid |-> 0]

\* ---------- disk / page cache ----------
RECURSIVE Overlay(_, _, _)
Overlay(d, v, i) == IF i > Len(v) THEN d ELSE Overlay([d EXCEPT ![v[i][1]] = v[i][2]], v, i + 1)
Cache == Overlay(disk, vol, 1)                   \* what mmap / pread observe
IsMeta(img) == img[1] = "m"
MetaRec(img) == [valid |-> IsMeta(img), txid |-> IF IsMeta(img) THEN img[2] ELSE 0]
MetaOf(c) == LET i == PickMeta(MetaRec(c[0]), MetaRec(c[1])) IN IF i = -1 THEN <<"none">> ELSE c[i]
Cur == MetaOf(Cache)                             \* db.meta()  (db.go:1141-1162)
CurTx == Cur[2]
CurHwm == Cur[4]

PPages == PendPages(pend)
NReaders == LET RECURSIVE s(_) s(t) == IF t < 0 THEN 0 ELSE readers[t] + s(t - 1) IN s(MaxTx)
RT == {t \in 0..MaxTx : readers[t] > 0}
FlSet(v) == IF flp[v] = NoFL THEN {} ELSE {flp[v]}
VerPages(v) == tree[v] \cup FlSet(v)

Init == /\ disk = [p \in 0..(MaxPg - 1) |-> CASE p = 0 -> <<"m", 0, 2, 4>> [] p = 1 -> <<"m", 1, 2, 4>>
                                             [] p = 2 -> <<"f", 1, {}>> [] p = 3 -> <<"t", 1>> [] OTHER -> <<"z">>]
        /\ vol = <<>> /\ tree = [v \in {0, 1} |-> {3}] /\ flp = [v \in {0, 1} |-> 2]
        /\ snap = [v \in {0, 1} |-> [p \in {2, 3} |-> IF p = 2 THEN <<"f", 1, {}>> ELSE <<"t", 1>>]]
        /\ free = {} /\ pend = {} /\ allocs = <<>> /\ readers = [t \in 0..MaxTx |-> 0]
        /\ w = Nil /\ acked = 1 /\ crashed = FALSE /\ failed = FALSE

\* ---------- readers (db.go:792-837, 875-896: both under metalock) ----------
BeginRead == /\ ~crashed /\ NReaders < MaxReaders /\ CurTx \in DOMAIN tree
             /\ readers' = [readers EXCEPT ![CurTx] = @ + 1]
             /\ UNCHANGED <<disk, vol, tree, flp, snap, free, pend, allocs, w, acked, crashed, failed>>
EndRead(t) == /\ ~crashed /\ readers[t] > 0 /\ readers' = [readers EXCEPT ![t] = @ - 1]
              /\ UNCHANGED <<disk, vol, tree, flp, snap, free, pend, allocs, w, acked, crashed, failed>>

\* ---------- the code's release policy (shared.go:141-205): release(minid-1) + releaseRange per reader-free extent
MinR == IF RT = {} THEN MaxTx + 10 ELSE CHOOSE t \in RT : \A u \in RT : t <= u
InGap(x) == IF x <= MinR THEN -1 ELSE
            LET below == {t \in RT : t < x} IN IF x \in RT THEN -1 ELSE (CHOOSE t \in below : \A u \in below : u <= t) + 1
Releasable(r) == \/ r[1] <= MinR - 1
                 \/ (InGap(r[1]) # -1 /\ r[3] # 0 /\ InGap(r[3]) = InGap(r[1]))
\* db.go:839-872
BeginWrite == /\ ~crashed /\ w = Nil /\ CurTx < MaxTx
              /\ LET S == {r \in pend : Releasable(r)} IN
                   /\ pend' = pend \ S /\ free' = free \cup PendPages(S)
              /\ w' = [txid |-> CurTx + 1, phase |-> "open", base |-> CurTx, hwm |-> CurHwm,
                       ntree |-> tree[CurTx], nfl |-> flp[CurTx], queue |-> {}, freed |-> {}]
              /\ UNCHANGED <<disk, vol, tree, flp, snap, allocs, readers, acked, crashed, failed>>

\* allocate one page (db.go:1165-1220): any free page (covers both backends), else extend the high-water mark
AllocChoices(fr, hwm) == IF fr # {} THEN {<<p, TRUE>> : p \in fr} ELSE IF hwm < MaxPg THEN {<<hwm, FALSE>>} ELSE {}
RECURSIVE AllocMany(_, _, _, _, _)
AllocMany(k, fr, hwm, acc, al) ==
   IF k = 0 THEN {<<fr, hwm, acc, al>>}
   ELSE UNION {AllocMany(k - 1, IF c[2] THEN fr \ {c[1]} ELSE fr, IF c[2] THEN hwm ELSE hwm + 1, acc \cup {c[1]},
                         IF c[2] THEN al \cup {c[1]} ELSE al) : c \in AllocChoices(fr, hwm)}
FreeRecs(D, txid) == {<<txid, q, IF q \in DOMAIN allocs THEN allocs[q] ELSE 0>> : q \in D}

\* rebalance + spill (node.go:295-361): free a set D of base pages, allocate k replacements (merge / rewrite / split)
Spill == /\ ~crashed /\ w # Nil /\ w.phase = "open"
         /\ \E D \in SUBSET w.ntree : /\ Cardinality(D) \in 1..MaxDirty
            /\ \E k \in {Cardinality(D) - 1, Cardinality(D), Cardinality(D) + 1} : k >= 1 /\
               \E o \in AllocMany(k, free, w.hwm, {}, {}) :
                 /\ free' = o[1]
                 /\ pend' = pend \cup FreeRecs(D, w.txid)
                 /\ allocs' = [q \in ((DOMAIN allocs) \ D) \cup o[4] |-> IF q \in o[4] THEN w.txid ELSE allocs[q]]
                 /\ w' = [w EXCEPT !.phase = "spilled", !.hwm = o[2], !.ntree = (w.ntree \ D) \cup o[3], !.queue = o[3], !.freed = D]
         /\ UNCHANGED <<disk, vol, tree, flp, snap, readers, acked, crashed, failed>>
SpillNone == /\ ~crashed /\ w # Nil /\ w.phase = "open" /\ w' = [w EXCEPT !.phase = "spilled"]
             /\ UNCHANGED <<disk, vol, tree, flp, snap, free, pend, allocs, readers, acked, crashed, failed>>

\* tx.go:214-227, 285-298: free the old freelist page, allocate and fill the new one (unless NoFreelistSync)
CommitFL == /\ ~crashed /\ w # Nil /\ w.phase = "spilled"
            /\ LET oldfl == w.nfl
                   p1 == IF oldfl # NoFL THEN pend \cup FreeRecs({oldfl}, w.txid) ELSE pend
                   al1 == [q \in (DOMAIN allocs) \ {oldfl} |-> allocs[q]]
               IN IF NoFLSync
                  THEN /\ pend' = p1 /\ allocs' = al1 /\ free' = free
                       /\ w' = [w EXCEPT !.phase = "fl", !.nfl = NoFL]
                  ELSE \E c \in AllocChoices(free, w.hwm) :
                       /\ free' = (IF c[2] THEN free \ {c[1]} ELSE free)
                       /\ pend' = p1
                       /\ allocs' = [q \in (DOMAIN al1) \cup (IF c[2] THEN {c[1]} ELSE {}) |-> IF q = c[1] THEN w.txid ELSE al1[q]]
                       /\ w' = [w EXCEPT !.phase = "fl", !.nfl = c[1], !.hwm = IF c[2] THEN w.hwm ELSE w.hwm + 1,
                                          !.queue = w.queue \cup {c[1]}]
            /\ UNCHANGED <<disk, vol, tree, flp, snap, readers, acked, crashed, failed>>

ImgOf(p) == IF p = w.nfl THEN <<"f", w.txid, free \cup PPages>> ELSE <<"t", w.txid>>
\* tx.go:520-563 (pages in ascending order)
WritePage == /\ ~crashed /\ w # Nil /\ w.phase = "fl" /\ w.queue # {}
             /\ LET p == CHOOSE q \in w.queue : \A r \in w.queue : q <= r IN
                  /\ vol' = Append(vol, <<p, ImgOf(p)>>) /\ w' = [w EXCEPT !.queue = w.queue \ {p}]
             /\ UNCHANGED <<disk, tree, flp, snap, free, pend, allocs, readers, acked, crashed, failed>>
\* tx.go:566-572
SyncData == /\ ~crashed /\ w # Nil /\ w.phase = "fl" /\ w.queue = {}
            /\ disk' = Cache /\ vol' = <<>> /\ w' = [w EXCEPT !.phase = "synced"]
            /\ UNCHANGED <<tree, flp, snap, free, pend, allocs, readers, acked, crashed, failed>>
\* tx.go:595-612 (under metalock): slot = txid mod 2
WriteMeta == /\ ~crashed /\ w # Nil /\ w.phase = "synced"
             /\ vol' = Append(vol, <<w.txid % 2, <<"m", w.txid, w.nfl, w.hwm>>>>)
             /\ tree' = [v \in (DOMAIN tree) \cup {w.txid} |-> IF v = w.txid THEN w.ntree ELSE tree[v]]
             /\ flp' = [v \in (DOMAIN flp) \cup {w.txid} |-> IF v = w.txid THEN w.nfl ELSE flp[v]]
             /\ LET pgs == w.ntree \cup (IF w.nfl = NoFL THEN {} ELSE {w.nfl}) IN
                snap' = [v \in (DOMAIN snap) \cup {w.txid} |-> IF v = w.txid THEN [p \in pgs |-> Cache[p]] ELSE snap[v]]
             /\ w' = [w EXCEPT !.phase = "metaw"]
             /\ UNCHANGED <<disk, free, pend, allocs, readers, acked, crashed, failed>>
\* tx.go:613-619 ; tx.close releases rwlock
SyncMeta == /\ ~crashed /\ w # Nil /\ w.phase = "metaw"
            /\ disk' = Cache /\ vol' = <<>> /\ acked' = w.txid /\ w' = Nil
            /\ UNCHANGED <<tree, flp, snap, free, pend, allocs, readers, crashed, failed>>

\* ---------- rollback ----------
\* Freelist.Rollback (shared.go:89-118): drop the pending records of txid, restore `allocs` of the freed pages
FLRollback(txid) ==
   LET mine == {r \in pend : r[1] = txid} IN
   [pend |-> pend \ mine,
    allocs |-> [q \in ({q \in DOMAIN allocs : allocs[q] # txid} \cup {r[2] : r \in {m \in mine : m[3] # 0}}) |->
                 IF q \in {r[2] : r \in {m \in mine : m[3] # 0}} THEN (CHOOSE r \in mine : r[2] = q)[3] ELSE allocs[q]]]
\* user rollback (tx.go:302-320): only possible before anything was allocated
RollbackUser == /\ ~crashed /\ w # Nil /\ w.phase = "open" /\ w' = Nil
                /\ UNCHANGED <<disk, vol, tree, flp, snap, free, pend, allocs, readers, acked, crashed, failed>>
\* physical rollback (tx.go:323-343): Rollback + reload from db.meta()'s freelist page / by scanning
Reloaded(pd) == LET m == Cur IN
   IF m[3] # NoFL THEN ReloadFromPage(Cache[m[3]][3], pd) ELSE ReloadByScan(m[4], tree[m[2]], pd)
\* One injected I/O failure per behaviour, at any step of the commit.
\* If the meta page is already written (the final sync fails) the transaction stays: the freelist is kept.
Fail == /\ EnableFault /\ ~crashed /\ ~failed /\ w # Nil /\ w.phase \in {"spilled", "fl", "synced", "metaw"}
        /\ IF w.phase = "metaw"
           THEN UNCHANGED <<pend, allocs, free>>
           ELSE LET rb == FLRollback(w.txid) IN
                /\ pend' = rb.pend /\ allocs' = rb.allocs /\ free' = Reloaded(rb.pend)
        /\ w' = Nil /\ failed' = TRUE
        /\ UNCHANGED <<disk, vol, tree, flp, snap, readers, acked, crashed>>

\* ---------- crash / recover ----------
RECURSIVE ApplySub(_, _, _, _)
ApplySub(d, v, S, i) == IF i > Len(v) THEN d ELSE ApplySub(IF i \in S THEN [d EXCEPT ![v[i][1]] = v[i][2]] ELSE d, v, S, i + 1)
\* the machine dies: any subset of the unsynced writes is on the platter; a meta write in flight may be torn
Crash == /\ EnableCrash /\ ~crashed /\ vol # <<>>
         /\ \E S \in SUBSET (1..Len(vol)) : \E torn \in BOOLEAN :
              LET d1 == ApplySub(disk, vol, S, 1)
                  last == vol[Len(vol)]
                  d2 == IF torn /\ IsMeta(last[2]) THEN [d1 EXCEPT ![last[1]] = <<"x">>] ELSE d1
              IN disk' = d2
         /\ vol' = <<>> /\ crashed' = TRUE /\ w' = Nil /\ readers' = [t \in 0..MaxTx |-> 0]
         /\ free' = {} /\ pend' = {} /\ allocs' = <<>>
         /\ UNCHANGED <<tree, flp, snap, acked, failed>>
\* Open after the crash (db.go:178-327, 422-436): pick the meta, load or rebuild the free list
Recover == /\ crashed /\ crashed' = FALSE
           /\ LET m == MetaOf(disk) IN
                free' = IF m[3] # NoFL THEN (IF disk[m[3]][1] = "f" THEN disk[m[3]][3] ELSE {}) ELSE ReloadByScan(m[4], tree[m[2]], {})
           /\ UNCHANGED <<disk, vol, tree, flp, snap, pend, allocs, readers, w, acked, failed>>

Next == BeginRead \/ (\E t \in 0..MaxTx : EndRead(t)) \/ BeginWrite \/ Spill \/ SpillNone \/ CommitFL \/ WritePage \/ SyncData
        \/ WriteMeta \/ SyncMeta \/ RollbackUser \/ Fail \/ Crash \/ Recover
Spec == Init /\ [][Next]_vars

\* ---------- properties ----------
Intact(v, c) == \A p \in DOMAIN snap[v] : c[p] = snap[v][p]
\* C02: every open reader keeps seeing the images of its version
SnapshotStable == ~crashed => \A t \in RT : Intact(t, Cache)
\* C06: the newest committed version is never touched
NewestIntact == ~crashed => (CurTx \in DOMAIN snap /\ Intact(CurTx, Cache))
\* C01: whatever subset of the unsynced writes survives, recovery finds a valid meta of the acknowledged
\*      (or the in-flight) transaction with all its pages intact
RecoverOK == crashed => LET m == MetaOf(disk) IN
                 /\ IsMeta(m) /\ m[2] >= acked /\ m[2] \in DOMAIN snap /\ Intact(m[2], disk)
FreeDisjoint == ~crashed => /\ free \cap PPages = {}
                            /\ (w = Nil => (free \cup PPages) \cap VerPages(CurTx) = {})
\* C02/C06/C10: nothing an open reader can reach is allocatable
NoFreeVisible == ~crashed => \A t \in RT : free \cap VerPages(t) = {}
\* C07
Partition == (~crashed /\ w = Nil) => PartitionOK(CurHwm, tree[CurTx], FlSet(CurTx), free, PPages)
\* C10: the code's release policy is one admissible choice of the semantic rule, and it is live
ReaderBag == [t \in RT |-> readers[t]]
ReleasePolicySafe == [][\A r \in pend \ pend' : (w = Nil /\ w' # Nil) => ReleaseSafe(r, ReaderBag)]_vars
ReleaseLive == [][(w = Nil /\ w' # Nil /\ RT = {}) => pend' = {}]_vars
\* C03: txids are consecutive
TxidStep == [][CurTx' \in {CurTx, CurTx + 1} \/ crashed']_vars
=============================================================================
