SPECIFICATION Spec
CONSTANTS
  NT = 3
  StatsAfterUnlock = FALSE
  TrackStats = TRUE
  MaxOps = 2
INVARIANTS StatsFresh OneWriter NoRemapUnderReaders MetaExclusive
PROPERTIES AllReturn
CHECK_DEADLOCK TRUE
