SPECIFICATION Spec
CONSTANTS
  MaxPg = 8
  MaxTx = 4
  MaxReaders = 0
  NoFLSync = FALSE
  EnableCrash = TRUE
  EnableFault = FALSE
  MaxDirty = 2
INVARIANTS RecoverOK NewestIntact FreeDisjoint Partition
PROPERTIES TxidStep
CHECK_DEADLOCK FALSE
