SPECIFICATION Spec
CONSTANTS
  MaxPg = 8
  MaxTx = 4
  MaxReaders = 2
  NoFLSync = TRUE
  EnableCrash = FALSE
  EnableFault = FALSE
  MaxDirty = 2
INVARIANTS SnapshotStable NewestIntact FreeDisjoint NoFreeVisible Partition
PROPERTIES ReleasePolicySafe ReleaseLive TxidStep
CHECK_DEADLOCK FALSE
