----------------------------- MODULE TraceLock -----------------------------
(***************************************************************************)
(* C17 on real processes: every open / close of the recorded schedule must *)
(* have the outcome Lock.tla gives for the current holders; a session on a *)
(* database opened read-only must refuse writers and leave the file        *)
(* byte-identical; memory handed out by a read transaction must not be a   *)
(* writable view of the file.                                              *)
(***************************************************************************)
EXTENDS Integers, Sequences, FiniteSets, TLC, Json
CONSTANTS NA
A == 1..NA
Trace == ndJsonDeserialize("trace.ndjson")
VARIABLES l, held
E == Trace[l]
IsEvent(e) == l <= Len(Trace) /\ E.ev = e /\ l' = l + 1
Expect(cond, what) == IF cond THEN TRUE ELSE PrintT(<<"MISMATCH", l, what, E>>) /\ FALSE
Compatible(h, a, mode) == IF mode = "rw" THEN \A b \in A \ {a} : h[b] = "none" ELSE \A b \in A \ {a} : h[b] # "rw"
Init == l = 1 /\ held = [a \in A |-> "none"]
TReset == IsEvent("LReset") /\ held' = [a \in A |-> "none"]
TOpen == /\ IsEvent("LOpen")
         /\ Expect(held[E.a] = "none", "driver opened twice through one actor")
         /\ LET want == IF Compatible(held, E.a, E.mode) THEN "ok" ELSE "ErrTimeout" IN
            /\ Expect(E.res = want, <<"open outcome; Lock.tla says", want, held>>)
            \* latency: a compatible open returns promptly, a conflicting one after about its timeout (generous bounds)
            /\ Expect(E.res # "ok" \/ E.ms <= 10000, "compatible open took more than 10 s")
            /\ Expect(E.res # "ErrTimeout" \/ (E.ms >= E.timeoutMs - 120 /\ E.ms <= E.timeoutMs + 10000), "timeout reported far from the requested timeout")
            /\ held' = IF E.res = "ok" THEN [held EXCEPT ![E.a] = E.mode] ELSE held
\* an open that fails after it took the lock leaves no lock behind
TOpenFail == /\ IsEvent("LOpenFail")
             /\ Expect(held[E.a] = "none", "driver opened twice through one actor")
             /\ LET want == IF Compatible(held, E.a, E.mode) THEN "fail" ELSE "ErrTimeout" IN
                Expect(E.res = want, <<"outcome of an open that fails half-way; Lock.tla says", want, held>>)
             /\ UNCHANGED held
TClose == /\ IsEvent("LClose")
          /\ Expect(held[E.a] # "none" /\ E.res = "ok", "close failed")
          /\ held' = [held EXCEPT ![E.a] = "none"]
\* a blocked open (no timeout) succeeds once the conflicting holder has closed
TWaiter == /\ IsEvent("LWaiter")
           /\ Expect(E.blockedWhileHeld /\ E.acquiredAfterClose, "a waiting open did not block while the lock was held, or did not succeed after it was released")
           \* ... and then holds the lock in the mode it asked for (the following LOpen / LClose events are judged against that)
           /\ held' = IF E.acquiredAfterClose THEN [held EXCEPT ![E.a] = E.waiter] ELSE held
\* a read-only database: writers refused, not one byte written, file unchanged - whatever is called on it
TROSession == /\ IsEvent("ROSession")
              /\ Expect(E.beginWriteErr = "ErrDatabaseReadOnly" /\ E.updateErr = "ErrDatabaseReadOnly" /\ E.batchErr = "ErrDatabaseReadOnly",
                        "a read-only database accepted a write transaction")
              /\ Expect(E.writeIOs = 0, "a read-only database issued write / truncate / sync calls")
              /\ Expect(E.shaSame, "the file changed during a read-only session (API program)")
              /\ Expect(E.cliShaSame /\ E.cliFailed = <<>>, <<"a CLI inspection command changed the file or failed", E.cliFailed>>)
              /\ Expect(E.apiCalls > 0, "empty read-only session")
              /\ UNCHANGED held
\* memory handed out by a read transaction: writing into it faults or hits a private copy
TPoke == /\ IsEvent("Poke")
         /\ Expect(E.changed = 0, "a slice returned by a read transaction is a writable view of the database")
         /\ Expect(E.fault + E.private > 0, "no slice was probed")
         /\ UNCHANGED held
Next == TReset \/ TOpen \/ TOpenFail \/ TClose \/ TWaiter \/ TROSession \/ TPoke
Spec == Init /\ [][Next]_<<l, held>>
Exclusion == \A a, b \in A : (a # b /\ held[a] = "rw") => held[b] = "none"
HighWater == TLCSet(1, IF TLCGet(1) < l THEN l ELSE TLCGet(1))
Accepted == IF TLCGet(1) = Len(Trace) + 1 THEN TRUE
            ELSE PrintT(<<"REJECTED at line", TLCGet(1), IF TLCGet(1) <= Len(Trace) THEN Trace[TLCGet(1)] ELSE "end">>) /\ FALSE
ASSUME TLCSet(1, 0)
=============================================================================
