SPECIFICATION Spec
CONSTANTS
  PageSize = 4096
  AllocSizes = {32768, 65536, 16777216}
  MaxSizes = {0, 1, 100000, 1048576, 1048577, 5242880}
  InitMmaps = {0, 65536, 8388608}
  MaxHwm = 330
  NoGrowSync = TRUE
  AllocNs = {1, 9, 70, 300}
  MaxOpens = 1
INVARIANTS SizeBound
PROPERTIES RefusalLeavesSizes
CHECK_DEADLOCK FALSE
