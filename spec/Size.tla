-------------------------------- MODULE Size --------------------------------
(***************************************************************************)
(* The file / map size arithmetic of bbolt with the REAL constants (C18):  *)
(*   mmapSize   db.go:578-613   32 KiB doubling to 1 GiB                   *)
(*   growSize   db.go:1263-1271 map size if <= AllocSize, else want+chunk  *)
(*   allocate   db.go:1165-1220 pre-check of the next file size vs MaxSize *)
(*   grow       db.go:1223-1261 truncate to growSize(datasz, want)         *)
(* The pre-check predicts the size grow() will use: with no remap pending  *)
(* that is the CURRENT map size (the repaired code; the pinned tree used   *)
(* mmapSize(minsz) and let the file grow far beyond MaxSize).              *)
(***************************************************************************)
EXTENDS BoltOps
CONSTANTS PageSize, AllocSizes, MaxSizes, InitMmaps, MaxHwm, NoGrowSync, AllocNs, MaxOpens
VARIABLES fileLen, datasz, hwm, ohwm, opened, maxSize, allocSize, openedLen, lastErr, nopen
vars == <<fileLen, datasz, hwm, ohwm, opened, maxSize, allocSize, openedLen, lastErr, nopen>>

Init == /\ fileLen = 4 * PageSize /\ hwm = 4 /\ ohwm = 4 /\ opened = FALSE /\ datasz = 0
        /\ maxSize = 0 /\ allocSize = 0 /\ openedLen = 0 /\ lastErr = "none" /\ nopen = 0
Open == /\ ~opened /\ nopen < MaxOpens /\ nopen' = nopen + 1 /\ \E ms \in MaxSizes, as \in AllocSizes, im \in InitMmaps :
            /\ maxSize' = ms /\ allocSize' = as /\ datasz' = MmapSize(Max(fileLen, im))
        /\ opened' = TRUE /\ openedLen' = fileLen /\ lastErr' = "none" /\ UNCHANGED <<fileLen, hwm, ohwm>>
Close == /\ opened /\ hwm = ohwm /\ opened' = FALSE
         /\ UNCHANGED <<fileLen, datasz, hwm, ohwm, maxSize, allocSize, openedLen, lastErr, nopen>>
\* allocate n pages beyond the high-water mark inside the open write transaction
Alloc(n) == /\ opened /\ hwm + n <= MaxHwm
            /\ LET minsz == (hwm + n + 1) * PageSize
                   nextMmap == IF minsz < datasz THEN datasz ELSE MmapSize(minsz)
                   nextAlloc == GrowSize(nextMmap, minsz, allocSize)
               IN IF maxSize > 0 /\ nextAlloc > maxSize
                  THEN /\ lastErr' = "MaxSizeReached" /\ hwm' = ohwm /\ UNCHANGED <<fileLen, datasz>>   \* the transaction is rolled back
                  ELSE /\ datasz' = (IF minsz >= datasz THEN MmapSize(minsz) ELSE datasz)
                       /\ hwm' = hwm + n /\ lastErr' = "none" /\ UNCHANGED fileLen
            /\ UNCHANGED <<ohwm, opened, maxSize, allocSize, openedLen, nopen>>
Commit == /\ opened /\ hwm > ohwm
          /\ LET sz == (hwm + 1) * PageSize IN
               fileLen' = IF sz <= fileLen THEN fileLen
                          ELSE IF NoGrowSync THEN Max(fileLen, hwm * PageSize)
                          ELSE GrowSize(datasz, sz, allocSize)
          /\ ohwm' = hwm /\ UNCHANGED <<datasz, hwm, opened, maxSize, allocSize, openedLen, lastErr, nopen>>
Next == Open \/ Close \/ (\E n \in AllocNs : Alloc(n)) \/ Commit
Spec == Init /\ [][Next]_vars
\* C18: the file is never extended beyond MaxSize (a file that was longer at Open is simply not grown)
SizeBound == (opened /\ maxSize > 0) => fileLen <= Max(maxSize, openedLen)
\* a refused allocation changes nothing
RefusalLeavesSizes == [][lastErr' = "MaxSizeReached" => (fileLen' = fileLen /\ datasz' = datasz /\ hwm' = ohwm)]_vars
=============================================================================
