\* Model mutant kept as documentation: the order of the pinned tree (statistics published after the
\* writer lock is released).  TLC reports StatsFresh violated (14 k states); not run by any check.
SPECIFICATION Spec
CONSTANTS
  NT = 3
  StatsAfterUnlock = TRUE
  TrackStats = TRUE
  MaxOps = 2
INVARIANTS StatsFresh OneWriter NoRemapUnderReaders MetaExclusive
CHECK_DEADLOCK TRUE
