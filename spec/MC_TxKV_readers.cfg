SPECIFICATION MCSpec
CONSTANTS
  K = 1
  NVals = 2
  MaxDepth = 1
  MaxSeq = 1
  MaxCommits = 3
  NReaders = 2
  MaxOps = 1
  MaxCur = 0
  Sequential = FALSE
  WithErrKeys = FALSE
  EmitDepth = 0
VIEW View
INVARIANTS ReaderSeesVersion SingleWriter StoreIsLastVersion CompactionPreserves
PROPERTIES ReaderStable TxidStep StoreOnlyByPublish ErrorsChangeNothing
CHECK_DEADLOCK FALSE
