SPECIFICATION MCSpec
CONSTANTS
  K = 2
  NVals = 2
  MaxDepth = 2
  MaxSeq = 1
  MaxCommits = 2
  NReaders = 1
  MaxOps = 3
  MaxCur = 0
  Sequential = FALSE
  WithErrKeys = TRUE
  EmitDepth = 0
VIEW View
INVARIANTS ReaderSeesVersion SingleWriter StoreIsLastVersion CompactionPreserves
PROPERTIES ReaderStable TxidStep StoreOnlyByPublish ErrorsChangeNothing
CHECK_DEADLOCK FALSE
