SPECIFICATION Spec
CONSTANTS
  N = 3
  MaxBatchSize = 2
  Patterns = {"ok", "fail1", "fail2", "failAll", "panic1", "panicAll"}
INVARIANTS ExactlyOnce OwnOutcome
PROPERTIES AllFinish
CHECK_DEADLOCK FALSE
