SPECIFICATION TSpec
CONSTRAINT HighWater
INVARIANTS FreeDisjoint NoFreeVisible NoMeta
POSTCONDITION Accepted
CHECK_DEADLOCK FALSE
