------------------------------- MODULE KV -------------------------------
(***************************************************************************)
(* L0: the logical data model of bbolt -- a tree of ordered maps, each     *)
(* with a counter -- as PURE OPERATORS.  Everything here is a function on  *)
(* values; TxKV.tla turns the operators into actions, TraceKV.tla applies  *)
(* the same operators to the arguments logged by the real code.            *)
(*                                                                         *)
(* Keys and values are abstract integer ids.  The harness concretises them *)
(* through an order-preserving table (key id i < j  <=>  bytes(i) < bytes  *)
(* (j)), so the integer order *is* the byte order of C05.                  *)
(*   key 0            the empty key                                        *)
(*   key >= BigKey    a key longer than MaxKeySize (32768 bytes); the     *)
(*                    harness maps id 999999 to a key of exactly that size *)
(*   value 0          the empty value                                      *)
(* Anchors: bucket.go:148-578 (API + error precedence), cursor.go.         *)
(***************************************************************************)
EXTENDS Integers, Sequences, FiniteSets, TLC
LOCAL INSTANCE SequencesExt

EmptyKey == 0
BigKey   == 1000000
NilV     == -1                      \* "no value": nil slice / not found

Empty == [seq |-> 0, ents |-> <<>>]            \* <<>> = the function with empty domain
V(v)  == [t |-> "v", v |-> v,    b |-> Empty]  \* uniform entry records (TLC compares records field-wise)
Bk(b) == [t |-> "b", v |-> NilV, b |-> b]

Has(b, k) == k \in DOMAIN b.ents
IsB(b, k) == Has(b, k) /\ b.ents[k].t = "b"
IsV(b, k) == Has(b, k) /\ b.ents[k].t = "v"
With(b, k, e)  == [b EXCEPT !.ents = [x \in (DOMAIN b.ents) \cup {k} |-> IF x = k THEN e ELSE b.ents[x]]]
Without(b, k)  == [b EXCEPT !.ents = [x \in (DOMAIN b.ents) \ {k} |-> b.ents[x]]]

RECURSIVE ValidPath(_, _)
ValidPath(b, p) == IF p = <<>> THEN TRUE
                   ELSE IsB(b, Head(p)) /\ ValidPath(b.ents[Head(p)].b, Tail(p))
RECURSIVE At(_, _)
At(b, p) == IF p = <<>> THEN b ELSE At(b.ents[Head(p)].b, Tail(p))      \* p must be valid
RECURSIVE SetAt(_, _, _)
SetAt(b, p, nb) == IF p = <<>> THEN nb ELSE With(b, Head(p), Bk(SetAt(b.ents[Head(p)].b, Tail(p), nb)))
RECURSIVE Paths(_, _)
Paths(b, pre) == {pre} \cup UNION {Paths(b.ents[k].b, Append(pre, k)) : k \in {x \in DOMAIN b.ents : b.ents[x].t = "b"}}
PathPrefix(p, q) == Len(p) <= Len(q) /\ SubSeq(q, 1, Len(p)) = p

\* sorted sequence of a finite set of integers (Java-backed operator of the CommunityModules)
SortSet(S) == SetToSortSeq(S, LAMBDA x, y : x < y)
Keys(b) == SortSet(DOMAIN b.ents)
KeyN(b) == Cardinality({k \in DOMAIN b.ents : b.ents[k].t = "v"})
BucketN(b) == Cardinality({k \in DOMAIN b.ents : b.ents[k].t = "b"})

(***************************************************************************)
(* Operations.  An operation request is a record                           *)
(*   [op, path, k, v, dst]   (unused fields are 0 / <<>>)                  *)
(* Apply(root, o) = [root |-> root', res |-> error name or "ok",           *)
(*                   out |-> integer result or NilV]                       *)
(* for a WRITABLE, OPEN transaction whose working root is `root`.          *)
(* Every error leaves the root unchanged (C04).  Handle-state errors       *)
(* (closed / read-only transaction) are added by TxKV!OpResult.            *)
(***************************************************************************)
R(root, res, out) == [root |-> root, res |-> res, out |-> out]

\* bucket.go:148-200
CreateBucket(root, p, k) == LET b == At(root, p) IN
   IF k = EmptyKey THEN R(root, "ErrBucketNameRequired", NilV)
   ELSE IF IsB(b, k) THEN R(root, "ErrBucketExists", NilV)
   ELSE IF Has(b, k) THEN R(root, "ErrIncompatibleValue", NilV)
   ELSE R(SetAt(root, p, With(b, k, Bk(Empty))), "ok", NilV)
\* bucket.go:205-269
CreateBucketIfNotExists(root, p, k) == LET b == At(root, p) IN
   IF k = EmptyKey THEN R(root, "ErrBucketNameRequired", NilV)
   ELSE IF IsB(b, k) THEN R(root, "ok", NilV)
   ELSE IF Has(b, k) THEN R(root, "ErrIncompatibleValue", NilV)
   ELSE R(SetAt(root, p, With(b, k, Bk(Empty))), "ok", NilV)
\* bucket.go:273-328
DeleteBucket(root, p, k) == LET b == At(root, p) IN
   IF ~Has(b, k) THEN R(root, "ErrBucketNotFound", NilV)
   ELSE IF ~IsB(b, k) THEN R(root, "ErrIncompatibleValue", NilV)
   ELSE R(SetAt(root, p, Without(b, k)), "ok", NilV)
\* bucket.go:336-403.  Moving a bucket into itself or one of its descendants is not
\* documented; the specification demands *some* error and an unchanged state ("ErrAny").
MoveBucket(root, p, k, q) == LET b == At(root, p) d == At(root, q) IN
   IF ~Has(b, k) THEN R(root, "ErrBucketNotFound", NilV)
   ELSE IF ~IsB(b, k) THEN R(root, "ErrIncompatibleValue", NilV)
   ELSE IF p = q THEN R(root, "ErrSameBuckets", NilV)
   ELSE IF PathPrefix(Append(p, k), q) THEN R(root, "ErrAny", NilV)
   ELSE IF IsB(d, k) THEN R(root, "ErrBucketExists", NilV)
   ELSE IF Has(d, k) THEN R(root, "ErrIncompatibleValue", NilV)
   ELSE LET moved == b.ents[k]
            r1 == SetAt(root, p, Without(b, k))
        IN R(SetAt(r1, q, With(At(r1, q), k, moved)), "ok", NilV)
\* bucket.go:452-494  (p # <<>>: the root bucket holds only buckets and has no Put)
Put(root, p, k, v) == LET b == At(root, p) IN
   IF k = EmptyKey THEN R(root, "ErrKeyRequired", NilV)
   ELSE IF k >= BigKey THEN R(root, "ErrKeyTooLarge", NilV)
   ELSE IF IsB(b, k) THEN R(root, "ErrIncompatibleValue", NilV)
   ELSE R(SetAt(root, p, With(b, k, V(v))), "ok", NilV)
\* bucket.go:433-446
Get(root, p, k) == LET b == At(root, p) IN
   R(root, "ok", IF IsV(b, k) THEN b.ents[k].v ELSE NilV)
\* bucket.go:499-535
Delete(root, p, k) == LET b == At(root, p) IN
   IF ~Has(b, k) THEN R(root, "ok", NilV)
   ELSE IF IsB(b, k) THEN R(root, "ErrIncompatibleValue", NilV)
   ELSE R(SetAt(root, p, Without(b, k)), "ok", NilV)
\* bucket.go:538-578
Sequence(root, p) == R(root, "ok", At(root, p).seq)
SetSequence(root, p, n) == R(SetAt(root, p, [At(root, p) EXCEPT !.seq = n]), "ok", NilV)
NextSequence(root, p) == LET b == At(root, p) IN
   R(SetAt(root, p, [b EXCEPT !.seq = @ + 1]), "ok", b.seq + 1)
\* Bucket(name): 1 = a bucket handle, 0 = nil   (bucket.go:88-111)
Lookup(root, p, k) == R(root, "ok", IF IsB(At(root, p), k) THEN 1 ELSE 0)
\* Inspect().KeyN of the bucket / number of child buckets (bucket.go:406-427)
CountKeys(root, p) == R(root, "ok", KeyN(At(root, p)))
CountBuckets(root, p) == R(root, "ok", BucketN(At(root, p)))

WriteOps == {"CreateBucket", "CreateBucketIfNotExists", "DeleteBucket", "MoveBucket", "Put", "Delete",
             "SetSequence", "NextSequence"}
ReadOps  == {"Get", "Sequence", "Lookup", "CountKeys", "CountBuckets"}

Apply(root, o) ==
   CASE o.op = "CreateBucket"            -> CreateBucket(root, o.path, o.k)
     [] o.op = "CreateBucketIfNotExists" -> CreateBucketIfNotExists(root, o.path, o.k)
     [] o.op = "DeleteBucket"            -> DeleteBucket(root, o.path, o.k)
     [] o.op = "MoveBucket"              -> MoveBucket(root, o.path, o.k, o.dst)
     [] o.op = "Put"                     -> Put(root, o.path, o.k, o.v)
     [] o.op = "Get"                     -> Get(root, o.path, o.k)
     [] o.op = "Delete"                  -> Delete(root, o.path, o.k)
     [] o.op = "Sequence"                -> Sequence(root, o.path)
     [] o.op = "SetSequence"             -> SetSequence(root, o.path, o.v)
     [] o.op = "NextSequence"            -> NextSequence(root, o.path)
     [] o.op = "Lookup"                  -> Lookup(root, o.path, o.k)
     [] o.op = "CountKeys"               -> CountKeys(root, o.path)
     [] o.op = "CountBuckets"            -> CountBuckets(root, o.path)

\* An operation is well-formed on `root` when the API can be called at all:
\* the bucket path resolves (the root bucket itself only offers the bucket operations).
WellFormed(root, o) ==
   /\ ValidPath(root, o.path)
   /\ (o.op = "MoveBucket" => ValidPath(root, o.dst))
   /\ (o.path = <<>> => o.op \in {"CreateBucket", "CreateBucketIfNotExists", "DeleteBucket", "MoveBucket",
                                  "Lookup", "CountBuckets"})

\* Does the operation directly modify the key set of bucket path p? (cursor invalidation)
Touches(o, p) ==
   /\ o.op \in {"CreateBucket", "CreateBucketIfNotExists", "DeleteBucket", "MoveBucket", "Put", "Delete"}
   /\ \/ o.path = p
      \/ (o.op = "MoveBucket" /\ o.dst = p)
      \/ (o.op \in {"DeleteBucket", "MoveBucket"} /\ PathPrefix(Append(o.path, o.k), p))

(***************************************************************************)
(* Cursors (C05): a sorted list with a position.                           *)
(*   pos = -1        never positioned                                      *)
(*   pos = 0         positioned on an empty bucket                         *)
(*   pos = 1..n      on the pos-th key                                     *)
(*   pos = n+1       after the last key (Seek found nothing)               *)
(* Running off either end returns nil and keeps the position.              *)
(* CurStep(b, pos, op, arg) = [pos |-> pos', k |-> key or NilV]            *)
(***************************************************************************)
Unset == -1
CurStep(b, pos, op, arg) ==
   LET ks == Keys(b)
       n  == Len(ks)
       at(i) == IF i >= 1 /\ i <= n THEN ks[i] ELSE NilV
   IN CASE op = "First" -> [pos |-> IF n = 0 THEN 0 ELSE 1, k |-> at(1)]
        [] op = "Last"  -> [pos |-> n, k |-> at(n)]
        [] op = "Next"  -> IF pos = Unset THEN [pos |-> pos, k |-> NilV]
                           ELSE IF pos < n THEN [pos |-> pos + 1, k |-> at(pos + 1)]
                           ELSE [pos |-> pos, k |-> NilV]
        [] op = "Prev"  -> IF pos = Unset THEN [pos |-> pos, k |-> NilV]
                           ELSE IF pos > 1 THEN [pos |-> pos - 1, k |-> at(pos - 1)]
                           ELSE [pos |-> pos, k |-> NilV]
        [] op = "Seek"  -> LET i == Cardinality({k \in DOMAIN b.ents : k < arg}) + 1 IN
                           [pos |-> i, k |-> at(i)]
\* value seen through a cursor for key k of bucket b: NilV for nested buckets
CurValue(b, k) == IF k = NilV THEN NilV ELSE b.ents[k].v

(***************************************************************************)
(* Compaction (C15, compact.go:8-118): walk the source in key order,       *)
(* recreate buckets / sequences / keys; commit whenever the running size   *)
(* would exceed the limit.  Sizes are abstract weights.  The destination   *)
(* after ALL intermediate commits equals the source for every limit; the   *)
(* intermediate commit points are a function of the limit only.            *)
(***************************************************************************)
RECURSIVE Flatten(_, _)
\* the sequence of "write steps" compaction performs: <<path, key, entry-kind, value>>
Flatten(b, pre) ==
   LET ks == Keys(b)
       RECURSIVE go(_)
       go(i) == IF i > Len(ks) THEN <<>>
                ELSE LET k == ks[i] e == b.ents[k] IN
                     IF e.t = "b"
                     THEN <<[path |-> pre, k |-> k, kind |-> "bucket", v |-> e.b.seq]>>
                          \o Flatten(e.b, Append(pre, k)) \o go(i + 1)
                     ELSE <<[path |-> pre, k |-> k, kind |-> "put", v |-> e.v]>> \o go(i + 1)
   IN go(1)
RECURSIVE ReplaySteps(_, _, _)
ReplaySteps(root, steps, i) ==
   IF i > Len(steps) THEN root
   ELSE LET s == steps[i]
            r1 == IF s.kind = "bucket"
                  THEN LET c == CreateBucketIfNotExists(root, s.path, s.k).root
                       IN SetSequence(c, Append(s.path, s.k), s.v).root
                  ELSE Put(root, s.path, s.k, s.v).root
        IN ReplaySteps(r1, steps, i + 1)
Compacted(src) == ReplaySteps(Empty, Flatten(src, <<>>), 1)
=============================================================================
