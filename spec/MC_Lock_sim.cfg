SPECIFICATION Spec
CONSTANTS
  NA = 3
  MaxSteps = 14
  EmitDepth = 15
INVARIANTS Exclusion Emit
CHECK_DEADLOCK FALSE
