package core

// RunExtra dispatches auxiliary sub-commands (helpers spawned by checks). Returns false if unknown.
var extraCmds = map[string]func(args []string){}

func RegisterCmd(name string, f func(args []string)) { extraCmds[name] = f }

func RunExtra(args []string) bool {
	if f, ok := extraCmds[args[0]]; ok {
		f(args[1:])
		return true
	}
	return false
}
