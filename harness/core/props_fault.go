package core

import (
	"fmt"
	"math/rand"
	"os"
	"path/filepath"
	"time"
)

// Fault enumeration (C08; also feeds C06 / C07): the k-th I/O call a workload issues after
// Open fails once (error; for writes optionally a short write), with and without read
// transactions held across the failure, followed by further transactions and a reopen.

func faultWorkload(s *Session, rng *rand.Rand, readers int, txs int) {
	const W = 1
	cfg := GenCfg{Keys: 14, Vals: 8, MaxDepth: 2, Txs: 1, OpsPerTx: 8}
	for i := 0; i < txs; i++ {
		// keep readers open across the (possibly failing) commit
		for r := 0; r < readers; r++ {
			h := 2 + r
			if s.Tx(h) == nil && rng.Intn(2) == 0 && s.DB != nil {
				s.Exec(Step{Ev: "Begin", H: h, W: false})
				s.Exec(Step{Ev: "Dump", H: h})
			}
		}
		s.Exec(Step{Ev: "Begin", H: W, W: true, Managed: rng.Intn(3) == 0})
		if s.Tx(W) == nil {
			// e.g. ErrInvalidMapping after a failed remap: the database must be reopenable
			s.Exec(Step{Ev: "Reopen"})
			continue
		}
		n := 2 + rng.Intn(cfg.OpsPerTx)
		for j := 0; j < n; j++ {
			if st, ok := s.RandomOp(rng, cfg, W, true); ok {
				s.Exec(st)
			}
		}
		s.Exec(Step{Ev: "End", H: W, How: "commit"})
		rs, _ := s.OpenHandles()
		for _, h := range rs {
			s.Exec(Step{Ev: "Dump", H: h})
			if rng.Intn(3) == 0 {
				s.Exec(Step{Ev: "End", H: h, How: "rollback"})
			}
		}
	}
}

func init() {
	RegisterRunner("fault", func(sc Scenario, s *Session, rng *rand.Rand, res *ScenarioResult) {
		if err := s.Open(true); err != nil {
			panic(err)
		}
		// warm-up transactions (never failed), so that the failing commit has a history
		faultWorkload(s, rng, 0, sc.Params["warm"])
		if sc.Params["switch"] == 1 {
			// reopen with the freelist-sync option flipped: the file's state (freelist page present or
			// not) and the session's option now disagree until the first commit of the session
			o := s.Opts
			o.NoFreelistSync = !o.NoFreelistSync
			if err := s.Reopen(&o); err != nil {
				panic(err)
			}
		}
		base := s.T.IOCount()
		if k := sc.Params["k"]; k > 0 {
			s.T.FailAt = base + k
			s.T.FailShort = sc.Params["short"]
		}
		faultWorkload(s, rng, sc.Params["readers"], sc.Params["txs"])
		res.Counters["fault_ios"] = s.T.IOCount() - base
		if s.T.FailHit {
			res.Counters["fault_hit"] = 1
		}
		s.T.FailAt = 0
		// arbitrary further transactions, then the state after reopen
		faultWorkload(s, rng, 1, 3)
		rs, _ := s.OpenHandles()
		for _, h := range rs {
			s.Exec(Step{Ev: "Dump", H: h})
		}
		if err := s.Reopen(nil); err != nil {
			res.Failures = append(res.Failures, "reopen after the failure: "+err.Error())
			return
		}
		s.Exec(Step{Ev: "Begin", H: 2, W: false})
		s.Exec(Step{Ev: "Dump", H: 2})
		s.Exec(Step{Ev: "End", H: 2, How: "rollback"})
		s.Exec(Step{Ev: "Begin", H: 1, W: true})
		s.Exec(Step{Ev: "Op", H: 1, Op: "CreateBucketIfNotExists", K: 1})
		s.Exec(Step{Ev: "Op", H: 1, Op: "Put", Path: []int{1}, K: 3, V: 2})
		s.Exec(Step{Ev: "End", H: 1, How: "commit"})
		_ = s.CloseAll()
	})
}

// countFaultIOs runs the workload once without failure (in this process) to learn how many I/O
// calls it issues.
func countFaultIOs(sc Scenario) int {
	// the dry run drives the real code inside the check process: a call that does not return must not hang the
	// check (it is reported like a panic, by Finish), and a panic is recovered
	ch := make(chan int, 1)
	go func() {
		defer func() {
			if p := recover(); p != nil {
				buildPanicMu.Lock()
				BuildPanics = append(BuildPanics, fmt.Sprintf("fault-free dry run of workload %s: %v", sc.Profile, p))
				buildPanicMu.Unlock()
				ch <- 0
			}
		}()
		ch <- countFaultIOs1(sc)
	}()
	select {
	case n := <-ch:
		return n
	case <-time.After(3 * time.Minute):
		buildPanicMu.Lock()
		BuildPanics = append(BuildPanics, fmt.Sprintf("fault-free dry run of a workload (page size %d, profile %s) did not finish within 3 minutes: a call of the real code does not return", sc.Opts.PageSize, sc.Profile))
		buildPanicMu.Unlock()
		return 0
	}
}

func countFaultIOs1(sc Scenario) int {
	dir, err := os.MkdirTemp("", "verif-cnt-")
	if err != nil {
		return 0
	}
	defer os.RemoveAll(dir)
	t := NewTracer()
	t.NoData = true
	t.Install()
	defer Uninstall()
	s := NewSession(filepath.Join(dir, "db"), sc.Opts, ProfileByName(sc.Opts.PageSize, sc.Profile), t)
	rng := rand.New(rand.NewSource(sc.Seed))
	if err := s.Open(true); err != nil {
		return 0
	}
	faultWorkload(s, rng, 0, sc.Params["warm"])
	if sc.Params["switch"] == 1 {
		o := s.Opts
		o.NoFreelistSync = !o.NoFreelistSync
		if err := s.Reopen(&o); err != nil {
			return 0
		}
	}
	base := t.IOCount()
	faultWorkload(s, rng, sc.Params["readers"], sc.Params["txs"])
	n := t.IOCount() - base
	_ = s.CloseAll()
	return n
}

func faultScenarios(prefix string, workloads int, seed int64, readers bool) []Scenario {
	var scs []Scenario
	for wl := 0; wl < workloads; wl++ {
		ps := []int{1024, 4096}[wl%2]
		o := Opts{PageSize: ps, NoFreelistSync: wl%4 == 3, NoGrowSync: wl%5 == 4}
		if wl%2 == 1 {
			o.Freelist = "hashmap"
		}
		if wl%3 == 0 {
			o.InitialMmapSize = 1 << 25
		}
		nr := 0
		if readers || wl%2 == 0 {
			nr = 1 + wl%2
		}
		base := Scenario{Kind: "fault", Seed: seed*2741 + int64(wl), Opts: o, Profile: []string{"half", "quarter", "page", "small"}[wl%4], Observe: true,
			Params: map[string]int{"warm": 2 + wl%3, "txs": 2, "readers": nr, "k": 0, "short": 0, "switch": map[bool]int{true: 1, false: 0}[wl%3 == 1]}}
		if wl%4 == 2 {
			// no warm-up: the failing transactions are the first ones of a fresh database, whose free list is still
			// empty - every allocation, including that of the freelist page, is at the end of the file
			base.Params["warm"] = 0
			base.Params["txs"] = 3
		}
		n := countFaultIOs(base)
		for k := 1; k <= n; k++ {
			sc := base
			sc.Params = map[string]int{}
			for kk, v := range base.Params {
				sc.Params[kk] = v
			}
			sc.Params["k"] = k
			if k%3 == 0 {
				sc.Params["short"] = 100 + 37*k%ps
			}
			sc.Name = fmt.Sprintf("%s-%d-w%d-k%d", prefix, seed, wl, k)
			scs = append(scs, sc)
		}
	}
	return scs
}

// ---------------------------------------------------------------- C08

func CheckC08(c *Ctx) int {
	c.Level = "fault_enumeration"
	c.Assume = append(boltAssume(), "an injected failure returns an error from the intercepted call without performing it (a failed write may persist a prefix)",
		"real OS-level I/O errors do not occur in the sandbox")
	if c.Replay != "" {
		return replayScenario(c, ValidateSpec{KV: true, Bolt: true}, nil)
	}
	c.ModelCheck("Bolt", "MC_Fault.cfg", 16, 30*time.Minute)
	c.ModelCheck("Bolt", "MC_Fault_nofl.cfg", 16, 30*time.Minute)
	if c.Thorough() {
		c.ModelCheck("Bolt", "MC_Fault_deep.cfg", 16, 60*time.Minute)
	}
	scs := faultScenarios("c08f", c.Pick(14, 160), c.Seed, false)
	o := RunScenarios(scs, ValidateSpec{KV: true, Bolt: true}, filepath.Join(c.WorkDir, "runs"), 14, 8, c.ChildTimeout())
	c.Absorb(o)
	c.Cov["evaluations"] = len(scs)
	c.Cov["distinct_nontrivial"] = DistinctNontrivial(o.PerScenario, func(m map[string]int) bool { return m["fault_hit"] > 0 })
	c.Cov["exhaustive"] = true
	c.Cov["model_checking"] = c.mcRuns
	c.Cov["rule"] = "one run per (workload, k): the k-th I/O call after the warm-up fails once, for ALL k the workload issues (writes, syncs, truncate, file sync, mmap; every third with a short write); non-trivial = the armed failure fired; each run's API trace is validated against TxKV and its page-level trace against TraceBolt by TLC"
	return c.Finish(nil)
}
