package core

import (
	"crypto/sha256"
	"encoding/hex"
	"fmt"
	"io"
	"math/rand"
	"os"
	"path/filepath"
	"syscall"
	"time"

	bolt "go.etcd.io/bbolt"
)

// ---------------------------------------------------------------- C14: hot backups

// gateWriter hands the copy to a file while running `during` after chosen byte counts.
type gateWriter struct {
	f      *os.File
	n      int64
	points []int64
	during func(i int)
	fired  int
}

func (g *gateWriter) Write(p []byte) (int, error) {
	// split the write at the next trigger point so that writers commit in the middle of the copy
	total := 0
	for len(p) > 0 {
		chunk := len(p)
		if g.fired < len(g.points) && g.n+int64(chunk) > g.points[g.fired] {
			chunk = int(g.points[g.fired] - g.n)
			if chunk <= 0 {
				g.during(g.fired)
				g.fired++
				continue
			}
		}
		n, err := g.f.Write(p[:chunk])
		g.n += int64(n)
		total += n
		if err != nil {
			return total, err
		}
		p = p[chunk:]
	}
	return total, nil
}

func fileSHA(path string) string {
	f, err := os.Open(path)
	if err != nil {
		return ""
	}
	defer f.Close()
	h := sha256.New()
	_, _ = io.Copy(h, f)
	return hex.EncodeToString(h.Sum(nil))
}

// observeCopy opens a derived database file read-only and returns the fields of the trace event.
func observeCopy(path string, prof Profile) Ev {
	e := Ev{"opened": false, "txid": -1, "meta0": -1, "meta1": -1, "checkErrs": -1, "problems": -1, "fileLen": -1, "root": map[string]any{"seq": 0, "ks": []int{}, "es": []any{}}}
	raw, err := os.ReadFile(path)
	if err != nil {
		return e
	}
	d := DecodeBytes(raw)
	e["problems"] = len(d.Problems)
	e["fileLen"] = len(raw)
	e["meta0"], e["meta1"] = int(d.Meta[0].Txid), int(d.Meta[1].Txid)
	func() {
		defer func() { _ = recover() }()
		db, err := bolt.Open(path, 0o600, &bolt.Options{ReadOnly: true, Timeout: time.Second})
		if err != nil {
			return
		}
		defer db.Close()
		s := &Session{Prof: prof}
		_ = db.View(func(tx *bolt.Tx) error {
			e["opened"] = true
			e["txid"] = tx.ID()
			e["root"] = s.dumpBucket(tx, nil)
			n := 0
			for range tx.Check() {
				n++
			}
			e["checkErrs"] = n
			return nil
		})
	}()
	return e
}

func init() {
	RegisterRunner("backup", func(sc Scenario, s *Session, rng *rand.Rand, res *ScenarioResult) {
		if err := s.Open(true); err != nil {
			panic(err)
		}
		dir := filepath.Dir(s.Path)
		const W = 1
		cfg := *sc.Gen
		writerTx := func() {
			s.Exec(Step{Ev: "Begin", H: W, W: true})
			n := 1 + rng.Intn(cfg.OpsPerTx)
			for i := 0; i < n; i++ {
				if st, ok := s.RandomOp(rng, cfg, W, true); ok {
					s.Exec(st)
				}
			}
			s.Exec(Step{Ev: "End", H: W, How: "commit"})
		}
		for i := 0; i < sc.Params["warm"]; i++ {
			writerTx()
		}
		for round := 0; round < sc.Params["rounds"]; round++ {
			h := 2 + round%3
			s.Exec(Step{Ev: "Begin", H: h, W: false})
			// the reader ages: writers commit between its begin and the backup
			for i := 0; i < rng.Intn(3); i++ {
				writerTx()
			}
			tx := s.Tx(h)
			if tx == nil {
				res.Counters["backup_reader_lost"]++
				continue
			}
			size := tx.Size()
			dst := filepath.Join(dir, fmt.Sprintf("backup-%d.db", round))
			var written int64
			var err error
			during := 0
			if round%3 == 2 {
				err = tx.CopyFile(dst, 0o600)
				if fi, e2 := os.Stat(dst); e2 == nil {
					written = fi.Size()
				}
			} else {
				f, e2 := os.Create(dst)
				if e2 != nil {
					panic(e2)
				}
				ps := int64(sc.Opts.PageSize)
				g := &gateWriter{f: f, points: []int64{ps / 2, 2 * ps, 2*ps + 17, size / 2, size - 3}, during: func(i int) {
					if s.Tx(h) == nil {
						return
					}
					// write transactions commit while the copy is in progress
					for k := 0; k < 1+rng.Intn(2); k++ {
						writerTx()
						during++
					}
				}}
				for i := 1; i < len(g.points); i++ {
					if g.points[i] <= g.points[i-1] {
						g.points[i] = g.points[i-1] + 1
					}
				}
				if round%2 == 1 {
					// WriteTo then reads through a second descriptor opened with this flag (tx.go:417-429)
					tx.WriteFlag = syscall.O_SYNC
					res.Counters["backups_with_write_flag"]++
				}
				written, err = tx.WriteTo(g)
				f.Close()
			}
			if s.Tx(h) == nil {
				// a remap forced the reader closed during the copy: the run says nothing about C14
				res.Counters["backup_reader_lost"]++
				os.Remove(dst)
				continue
			}
			e := observeCopy(dst, s.Prof)
			e["ev"], e["h"], e["size"], e["written"], e["err"], e["commitsDuring"] = "Backup", h, size, written, ErrName(err), during
			s.T.Add(e)
			res.Counters["backups"]++
			if during > 0 {
				res.Counters["backups_with_concurrent_commits"]++
			}
			os.Remove(dst)
			s.Exec(Step{Ev: "End", H: h, How: "rollback"})
		}
		// The path of the open database now names ANOTHER file (renamed over it). A backup taken with a write
		// flag re-opens the path; it must notice that this is not the file of the database (tx.go sameFile)
		// and still produce the reader's snapshot.
		if sc.Params["replace"] == 1 {
			s.AutoObserve = false
			h := 5
			s.Exec(Step{Ev: "Begin", H: h, W: false})
			writerTx()
			if tx := s.Tx(h); tx != nil {
				size := tx.Size()
				other := filepath.Join(dir, "other.db")
				Uninstall() // the other database is not part of the trace
				_, berr := BuildFile(other, Opts{PageSize: sc.Opts.PageSize}, s.Prof, sc.Seed+991, GenCfg{Keys: 12, Vals: 5, MaxDepth: 2, Txs: 4, OpsPerTx: 8})
				s.T.Install()
				if berr == nil {
					if fi, e2 := os.Stat(other); e2 == nil && fi.Size() < size+int64(sc.Opts.PageSize) {
						_ = os.Truncate(other, size+int64(sc.Opts.PageSize))
					}
					if os.Rename(other, s.Path) == nil {
						writerTx()
						writerTx()
						dst := filepath.Join(dir, "backup-replaced.db")
						f, e2 := os.Create(dst)
						if e2 != nil {
							panic(e2)
						}
						tx.WriteFlag = syscall.O_SYNC
						written, err := tx.WriteTo(f)
						f.Close()
						if s.Tx(h) != nil {
							e := observeCopy(dst, s.Prof)
							e["ev"], e["h"], e["size"], e["written"], e["err"], e["commitsDuring"] = "Backup", h, size, written, ErrName(err), 0
							s.T.Add(e)
							res.Counters["backups"]++
							res.Counters["backups_with_path_replaced"]++
						}
						os.Remove(dst)
					}
				}
			}
			if s.Tx(h) != nil {
				s.Exec(Step{Ev: "End", H: h, How: "rollback"})
			}
		}
		_ = s.CloseAll()
	})
}

func CheckC14(c *Ctx) int {
	c.Assume = []string{"TLC 1.8.0 evaluates the specification correctly", "writers commit from inside the io.Writer handed to WriteTo, i.e. truly in the middle of the copy",
		"InitialMmapSize is large enough that no remap (which would block on the backing reader) is needed"}
	if c.Replay != "" {
		return replayScenario(c, ValidateSpec{KV: true}, nil)
	}
	c.ModelCheck("MC_TxKV", "MC_TxKV_readers.cfg", 16, 20*time.Minute)
	c.ModelCheck("Bolt", "MC_Isolation.cfg", 16, 30*time.Minute)
	n := c.Pick(40, 500)
	var scs []Scenario
	for i := 0; i < n; i++ {
		ps := []int{1024, 4096, 1024, 16384}[i%4]
		o := Opts{PageSize: ps, InitialMmapSize: 1 << 27, NoFreelistSync: i%5 == 2, AllocSize: 65536}
		if i%2 == 1 {
			o.Freelist = "hashmap"
		}
		prof := []string{"small", "half", "quarter", "page", "mixed"}[i%5]
		if ps == 16384 {
			prof = "small"
		}
		g := GenCfg{Keys: 10 + (i*7)%30, Vals: 8, MaxDepth: 2 + i%2, OpsPerTx: 4 + i%10}
		scs = append(scs, Scenario{Name: fmt.Sprintf("c14-%d-%d", c.Seed, i), Kind: "backup", Seed: c.Seed*3301 + int64(i), Opts: o, Profile: prof, Gen: &g,
			Params: map[string]int{"warm": 2 + i%4, "rounds": 5, "replace": (i + 1) % 2}})
	}
	o := RunScenarios(scs, ValidateSpec{KV: true}, filepath.Join(c.WorkDir, "runs"), 14, 4, c.ChildTimeout())
	c.Absorb(o)
	c.Cov["evaluations"] = o.Counters["backups"]
	c.Cov["backups_with_write_flag"] = o.Counters["backups_with_write_flag"]
	c.Cov["backups_with_path_replaced"] = o.Counters["backups_with_path_replaced"]
	c.Cov["distinct_nontrivial"] = o.Counters["backups_with_concurrent_commits"]
	c.Cov["rule"] = "evaluations = backups taken (WriteTo through a gating writer - every second one with Tx.WriteFlag set -, CopyFile, and a final WriteTo with a write flag after the database's path was renamed onto another file) whose byte count, metas, content dump, Tx.Check and independent accounting TLC compared with the reader's snapshot in TxKV; non-trivial = write transactions committed between the first and the last byte of the copy; distinct by (history, round)"
	return c.Finish(nil)
}

// ---------------------------------------------------------------- C15: compaction

func init() {
	RegisterRunner("compact", func(sc Scenario, s *Session, rng *rand.Rand, res *ScenarioResult) {
		if err := s.Open(true); err != nil {
			panic(err)
		}
		dir := filepath.Dir(s.Path)
		cfg := *sc.Gen
		const W = 1
		for i := 0; i < cfg.Txs; i++ {
			s.Exec(Step{Ev: "Begin", H: W, W: true})
			n := 1 + rng.Intn(cfg.OpsPerTx)
			for j := 0; j < n; j++ {
				if st, ok := s.RandomOp(rng, cfg, W, true); ok {
					s.Exec(st)
				}
			}
			s.Exec(Step{Ev: "End", H: W, How: "commit"})
		}
		// the limits: every prefix sum of the walk (+-1), tiny limits, and unlimited
		var sums []int64
		var acc int64
		_ = s.DB.View(func(tx *bolt.Tx) error {
			var walk func(b *bolt.Bucket) error
			walk = func(b *bolt.Bucket) error {
				return b.ForEach(func(k, v []byte) error {
					acc += int64(len(k) + len(v))
					sums = append(sums, acc)
					if v == nil {
						if c := b.Bucket(k); c != nil {
							return walk(c)
						}
					}
					return nil
				})
			}
			return tx.ForEach(func(name []byte, b *bolt.Bucket) error {
				acc += int64(len(name))
				sums = append(sums, acc)
				return walk(b)
			})
		})
		limits := []int64{0, 1, 2, 7}
		for _, x := range sums {
			limits = append(limits, x-1, x, x+1)
		}
		rng.Shuffle(len(limits), func(i, j int) { limits[i], limits[j] = limits[j], limits[i] })
		if len(limits) > sc.Params["limits"] {
			limits = limits[:sc.Params["limits"]]
		}
		_ = s.CloseAll()
		Uninstall() // the destination databases are not traced
		srcSHA := fileSHA(s.Path)
		for li, lim := range limits {
			if lim < 0 {
				continue
			}
			dst := filepath.Join(dir, fmt.Sprintf("compact-%d.db", li))
			os.Remove(dst)
			var err error
			viaCLI := li%3 == 2
			if viaCLI {
				out, code := CLI(2*time.Minute, "compact", "-o", dst, "--tx-max-size", fmt.Sprint(lim), s.Path)
				if code != 0 {
					err = fmt.Errorf("exit %d: %s", code, Tail(out, 3))
				}
			} else {
				func() {
					defer func() {
						if p := recover(); p != nil {
							err = fmt.Errorf("panic: %v", p)
						}
					}()
					src, e1 := bolt.Open(s.Path, 0o600, &bolt.Options{ReadOnly: true, Timeout: time.Second})
					if e1 != nil {
						err = e1
						return
					}
					defer src.Close()
					d, e2 := bolt.Open(dst, 0o600, &bolt.Options{PageSize: sc.Opts.PageSize, Timeout: time.Second})
					if e2 != nil {
						err = e2
						return
					}
					err = bolt.Compact(d, src, lim)
					d.Close()
				}()
			}
			e := observeCopy(dst, s.Prof)
			e["ev"], e["limit"], e["cli"], e["ok"], e["err"], e["srcUnchanged"] = "Compact", lim, viaCLI, err == nil, ErrName(err), fileSHA(s.Path) == srcSHA
			s.T.Add(e)
			res.Counters["compactions"]++
			if lim > 0 && len(sums) > 0 && lim < sums[len(sums)-1] {
				res.Counters["compactions_with_intermediate_commit"]++
			}
			os.Remove(dst)
		}
	})
}

func CheckC15(c *Ctx) int {
	c.Assume = []string{"TLC 1.8.0 evaluates the specification correctly", "the CLI binary is built from /repo's current tree by ./check"}
	if c.Replay != "" {
		return replayScenario(c, ValidateSpec{KV: true}, nil)
	}
	c.ModelCheck("MC_TxKV", "MC_TxKV.cfg", 16, 20*time.Minute) // CompactionPreserves: Compacted(store) = store in every reachable state
	n := c.Pick(30, 400)
	var scs []Scenario
	for i := 0; i < n; i++ {
		ps := []int{1024, 4096, 4096, 16384}[i%4]
		// every third source was last written without a persisted free list: opening it read-write would flush
		// the free list into it, so "the source file is unchanged" also says that the tools open it read-only
		o := Opts{PageSize: ps, AllocSize: 65536, NoFreelistSync: i%3 == 1}
		prof := []string{"small", "half", "quarter", "page", "mixed", "tiny"}[i%6]
		if ps == 16384 {
			prof = "small"
		}
		g := GenCfg{Keys: 6 + (i*5)%25, Vals: 8, MaxDepth: 2 + i%4, Txs: 4 + i%6, OpsPerTx: 6 + i%12}
		scs = append(scs, Scenario{Name: fmt.Sprintf("c15-%d-%d", c.Seed, i), Kind: "compact", Seed: c.Seed*1709 + int64(i), Opts: o, Profile: prof, Gen: &g,
			Params: map[string]int{"limits": c.Pick(10, 40)}})
	}
	o := RunScenarios(scs, ValidateSpec{KV: true}, filepath.Join(c.WorkDir, "runs"), 14, 3, c.ChildTimeout())
	c.Absorb(o)
	c.Cov["evaluations"] = o.Counters["compactions"]
	c.Cov["distinct_nontrivial"] = o.Counters["compactions_with_intermediate_commit"]
	c.Cov["rule"] = "evaluations = (source content, limit) pairs compacted through bbolt.Compact and through the CLI, destination dump / Tx.Check / accounting compared by TLC with Compacted(store); limits are 0 (unlimited), tiny values and every prefix sum of the walk +-1 (so that intermediate commits fall inside nested buckets); non-trivial = the limit forced >= 1 intermediate commit"
	return c.Finish(nil)
}
