package core

import (
	"bytes"
	"context"
	"fmt"
	"io"
	"os"
	"os/exec"
	"path/filepath"
	"regexp"
	"strconv"
	"strings"
	"syscall"
	"time"
)

// SpecDir is where the TLA+ modules live.
var SpecDir = "/verif/spec"

const tlaCP = "/opt/veriftools/tla/tla2tools.jar:/opt/veriftools/tla/CommunityModules-deps.jar"

// TLCResult summarises one TLC run.
type TLCResult struct {
	Output    string
	Generated int64
	Distinct  int64
	Depth     int
	OK        bool   // finished without error and (if any) the postcondition held
	Rejected  int    // trace line at which validation stopped (0 = none)
	Mismatch  string // first MISMATCH / REJECTED diagnostic
	Violated  string // name of a violated invariant / property
	TimedOut  bool
	Wall      float64
	Cmd       string
}

type TLCJob struct {
	Module   string            // e.g. "TraceKV" (Module.tla must exist in SpecDir)
	Config   string            // e.g. "TraceKV.cfg"
	Files    map[string]string // extra files to copy into the scratch dir: name -> source path
	Workers  int
	HeapMB   int
	Timeout  time.Duration
	Args     []string // extra TLC arguments (-simulate ..., -depth ...)
	DFS      bool     // depth-first state queue (branching trace specs)
	KeepDir  string   // if set, the scratch dir is this (kept)
	Coverage bool
}

var (
	reStates   = regexp.MustCompile(`(\d+) states generated, (\d+) distinct states found`)
	reDepth    = regexp.MustCompile(`depth of the complete state graph search is (\d+)`)
	reRejected = regexp.MustCompile(`"REJECTED at line",\s*(\d+)`)
	reInv      = regexp.MustCompile(`Invariant (\S+) is violated|Action property (\S+) is violated|Temporal properties were violated|property (\S+) is violated`)
)

func copyFile(src, dst string) error {
	in, err := os.Open(src)
	if err != nil {
		return err
	}
	defer in.Close()
	out, err := os.Create(dst)
	if err != nil {
		return err
	}
	if _, err := io.Copy(out, in); err != nil {
		out.Close()
		return err
	}
	return out.Close()
}

// RunTLC runs TLC in a private scratch directory (TLC litters its working directory).
func RunTLC(job TLCJob) (TLCResult, error) {
	var res TLCResult
	dir := job.KeepDir
	if dir == "" {
		d, err := os.MkdirTemp("", "verif-tlc-")
		if err != nil {
			return res, err
		}
		dir = d
		defer os.RemoveAll(dir)
	} else {
		_ = os.MkdirAll(dir, 0o755)
	}
	specs, _ := filepath.Glob(filepath.Join(SpecDir, "*.tla"))
	cfgs, _ := filepath.Glob(filepath.Join(SpecDir, "*.cfg"))
	for _, f := range append(specs, cfgs...) {
		if err := copyFile(f, filepath.Join(dir, filepath.Base(f))); err != nil {
			return res, err
		}
	}
	for name, src := range job.Files {
		if err := copyFile(src, filepath.Join(dir, name)); err != nil {
			return res, err
		}
	}
	if job.Workers <= 0 {
		job.Workers = 1
	}
	if job.HeapMB <= 0 {
		job.HeapMB = 2048
	}
	if job.Timeout <= 0 {
		job.Timeout = 10 * time.Minute
	}
	args := []string{"-XX:+UseParallelGC", fmt.Sprintf("-Xmx%dm", job.HeapMB), "-Xss512m", "-Djava.io.tmpdir=" + dir}
	if job.DFS {
		args = append(args, "-Dtlc2.tool.queue.IStateQueue=StateDeque")
	}
	args = append(args, "-cp", tlaCP, "tlc2.TLC", "-workers", strconv.Itoa(job.Workers), "-metadir", filepath.Join(dir, "md"),
		"-noGenerateSpecTE", "-config", job.Config)
	if job.Coverage {
		args = append(args, "-coverage", "1")
	}
	args = append(args, job.Args...)
	args = append(args, job.Module+".tla")
	ctx, cancel := context.WithTimeout(context.Background(), job.Timeout)
	defer cancel()
	cmd := exec.CommandContext(ctx, "java", args...)
	cmd.Dir = dir
	cmd.Env = append(os.Environ(), "JAVA_TOOL_OPTIONS=")
	var buf bytes.Buffer
	cmd.Stdout = &buf
	cmd.Stderr = &buf
	res.Cmd = "java " + strings.Join(args, " ")
	start := time.Now()
	err := cmd.Run()
	res.Wall = time.Since(start).Seconds()
	res.Output = buf.String()
	if ctx.Err() == context.DeadlineExceeded {
		res.TimedOut = true
	}
	if m := reStates.FindAllStringSubmatch(res.Output, -1); len(m) > 0 {
		last := m[len(m)-1]
		res.Generated, _ = strconv.ParseInt(last[1], 10, 64)
		res.Distinct, _ = strconv.ParseInt(last[2], 10, 64)
	}
	if m := reDepth.FindStringSubmatch(res.Output); m != nil {
		res.Depth, _ = strconv.Atoi(m[1])
	}
	if m := reRejected.FindStringSubmatch(res.Output); m != nil {
		res.Rejected, _ = strconv.Atoi(m[1])
	}
	lines := strings.Split(res.Output, "\n")
	for i, line := range lines {
		if strings.Contains(line, "\"MISMATCH\"") || strings.Contains(line, "\"REJECTED at line\"") {
			if res.Mismatch == "" {
				j := i + 30
				if j > len(lines) {
					j = len(lines)
				}
				for k := i + 1; k < j; k++ {
					if strings.HasPrefix(lines[k], "<<") || strings.HasPrefix(lines[k], "Error") || strings.HasPrefix(lines[k], "Model") {
						j = k
						break
					}
				}
				res.Mismatch = strings.Join(lines[i:j], " ")
				res.Mismatch = strings.Join(strings.Fields(res.Mismatch), " ")
			}
		}
	}
	if m := reInv.FindStringSubmatch(res.Output); m != nil {
		res.Violated = strings.TrimSpace(m[0])
	}
	finished := strings.Contains(res.Output, "Model checking completed. No error has been found") ||
		strings.Contains(res.Output, "Finished in")
	hasErr := strings.Contains(res.Output, "Error:") || res.Violated != "" || res.Rejected != 0
	res.OK = err == nil && finished && !hasErr && !res.TimedOut
	return res, nil
}

// Tail returns the last n lines of s.
func Tail(s string, n int) string {
	lines := strings.Split(strings.TrimRight(s, "\n"), "\n")
	if len(lines) > n {
		lines = lines[len(lines)-n:]
	}
	return strings.Join(lines, "\n")
}

var reProved = regexp.MustCompile(`All (\d+) obligations? proved`)

// RunTLAPS re-checks a proof module with the TLA+ proof system in a private scratch directory.
// spec/tlaps/ holds stand-ins for modules the proof system cannot load (the CommunityModules' Json).
// Returns the number of proved obligations; a non-nil error means the proof was not re-checked
// (tool missing, prover timeout, ...), which says nothing about the code.
func RunTLAPS(module string, timeout time.Duration) (int, string, error) {
	dir, err := os.MkdirTemp("", "verif-tlaps-")
	if err != nil {
		return 0, "", err
	}
	defer os.RemoveAll(dir)
	specs, _ := filepath.Glob(filepath.Join(SpecDir, "*.tla"))
	stubs, _ := filepath.Glob(filepath.Join(SpecDir, "tlaps", "*.tla"))
	for _, f := range append(specs, stubs...) {
		if err := copyFile(f, filepath.Join(dir, filepath.Base(f))); err != nil {
			return 0, "", err
		}
	}
	ctx, cancel := context.WithTimeout(context.Background(), timeout)
	defer cancel()
	cmd := exec.CommandContext(ctx, "tlapm", "--threads", "8", "--stretch", "4", "-I", dir, module+".tla")
	cmd.Dir = dir
	// the proof manager starts back-end provers: on timeout the whole process group goes
	cmd.SysProcAttr = &syscall.SysProcAttr{Setpgid: true}
	cmd.Cancel = func() error { return syscall.Kill(-cmd.Process.Pid, syscall.SIGKILL) }
	cmd.WaitDelay = 5 * time.Second
	var buf bytes.Buffer
	cmd.Stdout = &buf
	cmd.Stderr = &buf
	err = cmd.Run()
	var keep []string
	for _, l := range strings.Split(buf.String(), "\n") {
		if !strings.HasPrefix(l, "WARNING") {
			keep = append(keep, l)
		}
	}
	out := strings.Join(keep, "\n")
	if m := reProved.FindStringSubmatch(out); m != nil && err == nil {
		n, _ := strconv.Atoi(m[1])
		return n, out, nil
	}
	if err == nil {
		err = fmt.Errorf("no success line")
	}
	return 0, out, fmt.Errorf("tlapm: %v: %s", err, Tail(out, 6))
}
