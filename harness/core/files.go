package core

import (
	"encoding/binary"
	"encoding/hex"
	"encoding/json"
	"fmt"
	"math/rand"
	"os"
	"os/exec"
	"path/filepath"
	"strconv"
	"strings"
	"time"

	bolt "go.etcd.io/bbolt"
)

// BuiltFile is a database file produced by a generated history (no tracer installed), together
// with what the API reports about it.
type BuiltFile struct {
	Path     string
	Opts     Opts
	Profile  Profile
	Versions map[string]string // txid -> content hash, for every version committed during the history
	Txid     int
}

// BuildFile runs a randomized history against a fresh file and closes it. Safe to call from
// several goroutines (no tracer is installed; the hooks are inert).
func BuildFile(path string, o Opts, prof Profile, seed int64, g GenCfg) (*BuiltFile, error) {
	t := NewTracer()
	t.NoData = true
	s := NewSession(path, o, prof, t)
	if err := s.Open(true); err != nil {
		return nil, err
	}
	bf := &BuiltFile{Path: path, Opts: o, Profile: prof, Versions: map[string]string{}}
	rec := func() {
		_ = s.DB.View(func(tx *bolt.Tx) error {
			bf.Versions[fmt.Sprint(tx.ID())] = hashDump(s.dumpBucket(tx, nil))
			bf.Txid = tx.ID()
			return nil
		})
	}
	rec()
	rng := rand.New(rand.NewSource(seed))
	const W = 1
	for i := 0; i < g.Txs; i++ {
		s.Exec(Step{Ev: "Begin", H: W, W: true})
		n := 1 + rng.Intn(g.OpsPerTx)
		for j := 0; j < n; j++ {
			if st, ok := s.RandomOp(rng, g, W, true); ok {
				s.Exec(st)
			}
		}
		s.Exec(Step{Ev: "End", H: W, How: "commit"})
		rec()
		if rng.Float64() < g.PReopen {
			s.Exec(Step{Ev: "Reopen"})
			rec()
		}
	}
	if err := s.CloseAll(); err != nil {
		return nil, err
	}
	return bf, nil
}

// APISums dumps a transaction with the byte-level summaries Format.tla computes:
// key = [length, 2-byte big-endian prefix], value = [length, 4-byte big-endian prefix].
func apiSums(tx *bolt.Tx, b *bolt.Bucket) map[string]any {
	ents := []any{}
	var c *bolt.Cursor
	seq := uint64(0)
	if b == nil {
		c = tx.Cursor()
	} else {
		c = b.Cursor()
		seq = b.Sequence()
	}
	for k, v := c.First(); k != nil; k, v = c.Next() {
		kk := append([]byte(nil), k...)
		ks := []int{len(kk), -1}
		if len(kk) >= 2 {
			ks[1] = int(binary.BigEndian.Uint16(kk))
		}
		var child *bolt.Bucket
		if b == nil {
			child = tx.Bucket(kk)
		} else {
			child = b.Bucket(kk)
		}
		if child != nil {
			ents = append(ents, map[string]any{"k": ks, "t": "b", "b": apiSums(tx, child)})
		} else {
			vs := []int{len(v), -1}
			if len(v) >= 4 {
				vs[1] = int(binary.BigEndian.Uint32(v))
			}
			ents = append(ents, map[string]any{"k": ks, "t": "v", "v": vs})
		}
	}
	return map[string]any{"seq": seq, "ents": ents}
}

type openObs struct {
	Opened    bool   `json:"opened"`
	Err       string `json:"err"`
	Txid      int    `json:"txid"`
	Content   string `json:"content"`
	CheckErrs int    `json:"checkErrs"`
	Panic     string `json:"panic"`
	First     string `json:"first,omitempty"`
}

// ObserveOpen opens path read-write with the real code and reports what it presents.
func ObserveOpen(path string, prof Profile, pageSize int, hashmap bool) (obs openObs) {
	defer func() {
		if p := recover(); p != nil {
			obs.Panic = fmt.Sprintf("%v", p)
			obs.Err = "panic: " + obs.Panic
			obs.Opened = false
		}
	}()
	o := &bolt.Options{Timeout: time.Second}
	if hashmap {
		o.FreelistType = bolt.FreelistMapType
	}
	if raw, err := os.ReadFile(path); err == nil {
		if d := DecodeBytes(raw); d.Active >= 0 && d.Meta[d.Active].Freelist < 0 {
			o.NoFreelistSync = true
		}
	}
	db, err := bolt.Open(path, 0o600, o)
	if err != nil {
		obs.Err = err.Error()
		return
	}
	defer db.Close()
	obs.Opened = true
	s := &Session{Prof: prof, DumpBudget: 2000000}
	_ = db.View(func(tx *bolt.Tx) error {
		obs.Txid = tx.ID()
		obs.Content = hashDump(s.dumpBucket(tx, nil))
		for e := range tx.Check() {
			if obs.CheckErrs == 0 {
				obs.First = e.Error()
			}
			obs.CheckErrs++
		}
		return nil
	})
	return
}

// CLI runs the bbolt command-line tool built from /repo.
func CLI(timeout time.Duration, args ...string) (string, int) {
	bin := filepath.Join(filepath.Dir(Self()), "bbolt")
	cmd := exec.Command(bin, args...)
	var sb strings.Builder
	cmd.Stdout = &sb
	cmd.Stderr = &sb
	if err := cmd.Start(); err != nil {
		return err.Error(), -1
	}
	done := make(chan error, 1)
	go func() { done <- cmd.Wait() }()
	select {
	case err := <-done:
		if err == nil {
			return sb.String(), 0
		}
		if ee, ok := err.(*exec.ExitError); ok {
			return sb.String(), ee.ExitCode()
		}
		return sb.String() + err.Error(), -1
	case <-time.After(timeout):
		_ = cmd.Process.Kill()
		<-done
		return sb.String() + " (timeout)", -2
	}
}

func copyTo(src, dst string) error {
	b, err := os.ReadFile(src)
	if err != nil {
		return err
	}
	return os.WriteFile(dst, b, 0o600)
}

// intsOf converts bytes to a JSON-friendly int slice.
func intsOf(b []byte) []int {
	r := make([]int, len(b))
	for i, v := range b {
		r[i] = int(v)
	}
	return r
}

// ObserveOpenSub runs ObserveOpen in a child process: corrupted files can crash the real code in
// a goroutine of its own (db.freepages), which no recover() in the caller can catch.
func ObserveOpenSub(path string, profName string, pageSize int, hashmap bool) openObs {
	hm := "0"
	if hashmap {
		hm = "1"
	}
	cmd := exec.Command(Self(), "observe-open", path, profName, fmt.Sprint(pageSize), hm)
	var so, se strings.Builder
	cmd.Stdout = &so
	cmd.Stderr = &se
	done := make(chan error, 1)
	if err := cmd.Start(); err != nil {
		return openObs{Err: err.Error()}
	}
	go func() { done <- cmd.Wait() }()
	select {
	case err := <-done:
		var obs openObs
		if err == nil && json.Unmarshal([]byte(so.String()), &obs) == nil {
			return obs
		}
		msg := firstLines(se.String(), 3)
		return openObs{Err: "process crashed: " + msg, Panic: "process crashed: " + msg}
	case <-time.After(60 * time.Second):
		_ = cmd.Process.Kill()
		<-done
		return openObs{Err: "timeout", Panic: "open/check did not return within 60 s"}
	}
}

func init() {
	RegisterCmd("observe-open", func(args []string) {
		ps := 0
		fmt.Sscan(args[2], &ps)
		obs := ObserveOpen(args[0], ProfileByName(ps, args[1]), ps, args[3] == "1")
		b, _ := json.Marshal(obs)
		fmt.Println(string(b))
	})
}

// TopBucketStats opens the file read-only with the real code and returns Bucket.Stats() of every
// top-level bucket, in key order (the order in which the decoder lists the top-level buckets).
func TopBucketStats(path string) ([]map[string]int, error) {
	db, err := bolt.Open(path, 0o600, &bolt.Options{ReadOnly: true, Timeout: time.Second})
	if err != nil {
		return nil, err
	}
	defer db.Close()
	out := []map[string]int{}
	err = db.View(func(tx *bolt.Tx) error {
		return tx.ForEach(func(_ []byte, b *bolt.Bucket) error {
			s := b.Stats()
			out = append(out, map[string]int{"branchPageN": s.BranchPageN, "branchOverflowN": s.BranchOverflowN, "leafPageN": s.LeafPageN,
				"leafOverflowN": s.LeafOverflowN, "keyN": s.KeyN, "depth": s.Depth, "branchAlloc": s.BranchAlloc, "branchInuse": s.BranchInuse,
				"leafAlloc": s.LeafAlloc, "leafInuse": s.LeafInuse, "bucketN": s.BucketN, "inlineBucketN": s.InlineBucketN,
				"inlineBucketInuse": s.InlineBucketInuse})
			return nil
		})
	})
	return out, err
}

// CLIPages runs `bbolt pages` and parses its table: one record per row, items = -1 and ov = 0 where the
// column is blank. ok is false when the command fails or a row cannot be parsed.
func CLIPages(path string) ([]map[string]any, bool) {
	out, code := CLI(60*time.Second, "pages", path)
	if code != 0 {
		return nil, false
	}
	rows := []map[string]any{}
	for i, l := range strings.Split(strings.TrimRight(out, "\n"), "\n") {
		if i < 2 {
			continue // header
		}
		f := strings.Fields(l)
		if len(f) < 2 || len(f) > 4 {
			return nil, false
		}
		id, err := strconv.Atoi(f[0])
		if err != nil {
			return nil, false
		}
		t := f[1]
		if strings.HasPrefix(t, "unknown") {
			t = "unknown"
		}
		r := map[string]any{"id": id, "type": t, "items": -1, "ov": 0}
		if len(f) >= 3 {
			n, err := strconv.Atoi(f[2])
			if err != nil {
				return nil, false
			}
			r["items"] = n
		}
		if len(f) == 4 {
			n, err := strconv.Atoi(f[3])
			if err != nil {
				return nil, false
			}
			r["ov"] = n
		}
		rows = append(rows, r)
	}
	return rows, true
}

// CLIInfo runs `bbolt info` and returns the page size it prints (-1 on failure).
func CLIInfo(path string) int {
	out, code := CLI(60*time.Second, "info", path)
	if code != 0 {
		return -1
	}
	n := -1
	fmt.Sscanf(strings.TrimSpace(out), "Page Size: %d", &n)
	return n
}

// CLIStats runs `bbolt stats` and returns the aggregated bucket statistics it prints.
func CLIStats(path string) (map[string]int, bool) {
	out, code := CLI(60*time.Second, "stats", path)
	if code != 0 {
		return nil, false
	}
	labels := map[string]string{
		"Number of logical branch pages": "branchPageN", "Number of physical branch overflow pages": "branchOverflowN",
		"Number of logical leaf pages": "leafPageN", "Number of physical leaf overflow pages": "leafOverflowN",
		"Number of keys/value pairs": "keyN", "Number of levels in B+tree": "depth",
		"Bytes allocated for physical branch pages": "branchAlloc", "Bytes actually used for branch data": "branchInuse",
		"Bytes allocated for physical leaf pages": "leafAlloc", "Bytes actually used for leaf data": "leafInuse",
		"Total number of buckets": "bucketN", "Total number on inlined buckets": "inlineBucketN", "Bytes used for inlined buckets": "inlineBucketInuse",
	}
	res := map[string]int{"buckets": -1}
	for _, l := range strings.Split(out, "\n") {
		l = strings.TrimSpace(l)
		if strings.HasPrefix(l, "Aggregate statistics for ") {
			n := -1
			fmt.Sscanf(l, "Aggregate statistics for %d buckets", &n)
			res["buckets"] = n
			continue
		}
		i := strings.Index(l, ": ")
		if i < 0 {
			continue
		}
		if k, ok := labels[l[:i]]; ok {
			v := strings.Fields(l[i+2:])
			n, err := strconv.Atoi(v[0])
			if err != nil {
				return nil, false
			}
			res[k] = n
		}
	}
	if len(res) != len(labels)+1 {
		return nil, false
	}
	return res, true
}

// cliView queries the closed database through the command-line tool: `bbolt buckets`, `bbolt keys` for a few
// (nested) buckets and `bbolt get` for a few keys. Which buckets / keys are asked for is chosen from the final
// dump; what the answers must be is decided by TLC from the specification's committed state (TraceKV!TCLIView).
func cliView(path string, prof Profile, final map[string]any, rng *rand.Rand) Ev {
	hexIDs := func(out string, val bool) ([]int, bool) {
		ids := []int{}
		for _, l := range strings.Split(strings.TrimRight(out, "\n"), "\n") {
			if l == "" && !val {
				continue
			}
			b, err := hex.DecodeString(strings.TrimSpace(l))
			if err != nil {
				return ids, false
			}
			if val {
				ids = append(ids, prof.ValID(b))
			} else {
				ids = append(ids, prof.KeyID(b))
			}
		}
		return ids, true
	}
	e := Ev{"ev": "CLIView"}
	out, code := CLI(60*time.Second, "buckets", path)
	top := []int{}
	for _, l := range strings.Split(strings.TrimRight(out, "\n"), "\n") {
		if l != "" {
			top = append(top, prof.KeyID([]byte(l)))
		}
	}
	e["buckets"], e["bucketsOK"] = top, code == 0
	// every bucket path of the final state whose names can be given on a command line
	type bk struct {
		path []int
		d    map[string]any
	}
	var all []bk
	var walk func(d map[string]any, pre []int)
	walk = func(d map[string]any, pre []int) {
		ks, _ := d["ks"].([]int)
		es, _ := d["es"].([]any)
		for i, k := range ks {
			m, _ := es[i].(map[string]any)
			if m["t"] == "b" && k > EmptyKey && k < MaxKey {
				p := append(append([]int{}, pre...), k)
				sub, _ := m["b"].(map[string]any)
				all = append(all, bk{p, sub})
				walk(sub, p)
			}
		}
	}
	walk(final, nil)
	rng.Shuffle(len(all), func(i, j int) { all[i], all[j] = all[j], all[i] })
	if len(all) > 5 {
		all = all[:5]
	}
	keys, gets := []map[string]any{}, []map[string]any{}
	for _, b := range all {
		names := []string{}
		for _, k := range b.path {
			names = append(names, string(prof.Key(k)))
		}
		out, code := CLI(60*time.Second, append([]string{"keys", "--format", "hex", path}, names...)...)
		ids, ok := hexIDs(out, false)
		keys = append(keys, map[string]any{"path": b.path, "keys": ids, "ok": ok && code == 0})
		ks, _ := b.d["ks"].([]int)
		es, _ := b.d["es"].([]any)
		asked := 0
		for i, k := range ks {
			m, _ := es[i].(map[string]any)
			if m["t"] != "v" || k <= EmptyKey || k >= MaxKey || asked >= 3 {
				continue
			}
			asked++
			args := append([]string{"get", "--format", "hex", path}, names...)
			out, code := CLI(60*time.Second, append(args, string(prof.Key(k)))...)
			v, ok := hexIDs(out, true)
			vid := Unknown
			if ok && len(v) == 1 {
				vid = v[0]
			}
			gets = append(gets, map[string]any{"path": b.path, "k": k, "v": vid, "ok": code == 0})
		}
	}
	e["keys"], e["gets"] = keys, gets
	return e
}
