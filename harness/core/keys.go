package core

import (
	"bytes"
	"encoding/binary"
	"fmt"
	"strings"
)

// The specification works on abstract key / value ids. A Profile is the
// order-preserving table that turns them into bytes of chosen sizes, so a handful
// of ids crosses every structural threshold of the B+tree (splits, merges,
// overflow pages, inline <-> paged buckets).

const (
	EmptyKey = 0
	BigKey   = 1000000
	MaxKey   = 999999 // a key of exactly MaxKeySize (32768) bytes: the longest legal key
	NilV     = -1
	Unknown  = -2 // bytes that are not the image of any id: always a mismatch
)

type Profile struct {
	Name    string
	KeyLen  int   // length of ordinary keys (>= 2)
	ValLens []int // value id v (>0) has length ValLens[v % len]; every entry >= 4
	Text    bool  // keys and values are printable ASCII ("k00012...", "v0000034..."): usable on a command line
}

// Profiles for page size ps.
func Profiles(ps int) []Profile {
	return []Profile{
		{"tiny", 2, []int{4, 5, 8}, false},
		{"small", 8, []int{16, 4, 40}, false},
		{"quarter", 12, []int{ps/4 - 40, ps / 4, ps/4 + 40, 8}, false}, // around the inline threshold
		{"half", 40, []int{ps/2 - 60, ps / 3, 20, ps / 2}, false},      // two keys per leaf
		{"page", 16, []int{ps - 80, ps + 10, 30, 2*ps + 100}, false},   // overflow pages
		{"bigkey", ps/2 - 8, []int{8, ps / 8, 4}, false},               // branch pages split early
		{"mixed", 24, []int{4, ps / 5, ps + ps/2, 60, 3*ps + 7, ps / 3}, false},
	}
}

// TextProfile: printable keys and values, so that the command-line tool can name buckets and keys.
func TextProfile(ps int) Profile { return Profile{"text", 10, []int{12, 40, ps / 3, 9}, true} }

func ProfileByName(ps int, name string) Profile {
	if name == "text" {
		return TextProfile(ps)
	}
	// "cross:<n>": small values, except that every value id divisible by 7 has length n (one allocation of a chosen size)
	if strings.HasPrefix(name, "cross:") {
		n := 0
		fmt.Sscanf(name[6:], "%d", &n)
		return Profile{name, 8, []int{n, 16, 24, 9, 12, 20, 30}, false}
	}
	for _, p := range Profiles(ps) {
		if p.Name == name {
			return p
		}
	}
	return Profiles(ps)[1]
}

func (p Profile) Key(id int) []byte {
	if id == EmptyKey {
		return []byte{}
	}
	if id >= BigKey {
		b := make([]byte, 32769)
		binary.BigEndian.PutUint16(b, uint16(0xFFF0))
		return b
	}
	if id == MaxKey {
		b := make([]byte, 32768)
		binary.BigEndian.PutUint16(b, uint16(0xFFF0))
		return b
	}
	if p.Text {
		b := []byte(fmt.Sprintf("k%05d", id))
		for i := len(b); i < p.KeyLen; i++ {
			b = append(b, byte('a'+(i+id)%23))
		}
		return b
	}
	n := p.KeyLen
	if n < 2 {
		n = 2
	}
	b := make([]byte, n)
	binary.BigEndian.PutUint16(b, uint16(id))
	for i := 2; i < n; i++ {
		b[i] = byte('a' + (i+id)%23)
	}
	return b
}

func (p Profile) KeyID(b []byte) int {
	if b == nil {
		return NilV
	}
	if len(b) == 0 {
		return EmptyKey
	}
	if len(b) > 32768 {
		return BigKey
	}
	if len(b) == 32768 {
		if !bytes.Equal(p.Key(MaxKey), b) {
			return Unknown
		}
		return MaxKey
	}
	if p.Text {
		id := 0
		if len(b) < 6 || b[0] != 'k' {
			return Unknown
		}
		if _, err := fmt.Sscanf(string(b[1:6]), "%05d", &id); err != nil || !bytes.Equal(p.Key(id), b) {
			return Unknown
		}
		return id
	}
	if len(b) < 2 {
		return Unknown
	}
	id := int(binary.BigEndian.Uint16(b))
	if !bytes.Equal(p.Key(id), b) {
		return Unknown
	}
	return id
}

func (p Profile) Val(id int) []byte {
	if id <= 0 {
		return []byte{}
	}
	n := p.ValLens[id%len(p.ValLens)]
	if p.Text {
		b := []byte(fmt.Sprintf("v%07d", id))
		for i := len(b); i < n; i++ {
			b = append(b, byte('A'+(i*7+id*13)%26))
		}
		return b
	}
	if n < 4 {
		n = 4
	}
	b := make([]byte, n)
	binary.BigEndian.PutUint32(b, uint32(id))
	for i := 4; i < n; i++ {
		b[i] = byte(i*7 + id*13)
	}
	return b
}

// ValID maps bytes back to the value id; an empty value is id 0.
func (p Profile) ValID(b []byte) int {
	if len(b) == 0 {
		return 0
	}
	if p.Text {
		id := 0
		if len(b) < 8 || b[0] != 'v' {
			return Unknown
		}
		if _, err := fmt.Sscanf(string(b[1:8]), "%07d", &id); err != nil || id <= 0 || !bytes.Equal(p.Val(id), b) {
			return Unknown
		}
		return id
	}
	if len(b) < 4 {
		return Unknown
	}
	id := int(binary.BigEndian.Uint32(b))
	if id <= 0 || id > 1<<24 || !bytes.Equal(p.Val(id), b) {
		return Unknown
	}
	return id
}
