package core

import (
	"encoding/binary"
	"fmt"
	"os"
	"path/filepath"
	"sort"
	"sync"
	"time"
)

// C19: the integrity check finds structural corruption and only that. Single structural
// corruptions are applied at byte level to copies of consistent files; the verdict function is
// Format.tla's Consistent(graph), evaluated by TLC on the page graph of each (mutated) file.

type mutation struct {
	class string
	name  string
	apply func(raw []byte)
}

func pageOff(id uint64, ps int) int { return int(id) * ps }

// mutationsFor enumerates the eligible single corruptions of a decoded file.
func mutationsFor(raw []byte, d *Decoded, limitPerClass int) []mutation {
	ps := d.PageSize
	var ms []mutation
	add := func(class, name string, f func(raw []byte)) {
		n := 0
		for _, m := range ms {
			if m.class == class {
				n++
			}
		}
		if n < limitPerClass {
			ms = append(ms, mutation{class, name, f})
		}
	}
	tree := d.TreePages()
	var leafs, branches []uint64
	for _, id := range tree {
		switch d.Types[id] {
		case "leaf":
			leafs = append(leafs, id)
		case "branch":
			branches = append(branches, id)
		}
	}
	hasFL := d.Active >= 0 && d.Meta[d.Active].Freelist >= 0
	if hasFL {
		flOff := pageOff(uint64(d.Meta[d.Active].Freelist), ps)
		n := int(binary.LittleEndian.Uint16(raw[flOff+10:]))
		if n > 0 && n < 0xFFFF {
			// 1a. the HIGHEST free id dropped (when it is the page just below the high-water mark, the scan for
			//     unreachable-unfreed pages has to reach the very last page)
			add("unreachable-unfreed", fmt.Sprintf("drop-free-last-%d", n-1), func(raw []byte) {
				binary.LittleEndian.PutUint16(raw[flOff+10:], uint16(n-1))
			})
			for i := 0; i < n; i++ {
				i := i
				// 1. a page that is neither reachable nor free
				add("unreachable-unfreed", fmt.Sprintf("drop-free-%d", i), func(raw []byte) {
					copy(raw[flOff+16+8*i:], raw[flOff+16+8*(i+1):flOff+16+8*n])
					binary.LittleEndian.PutUint16(raw[flOff+10:], uint16(n-1))
				})
				// 2. a page that is reachable and free
				if len(tree) > 0 {
					r := tree[(i*7+3)%len(tree)]
					add("reachable-free", fmt.Sprintf("free-reachable-%d-pg%d", i, r), func(raw []byte) {
						binary.LittleEndian.PutUint64(raw[flOff+16+8*i:], r)
					})
				}
				// 4. a page freed twice
				if i+1 < n {
					add("freed-twice", fmt.Sprintf("dup-free-%d", i), func(raw []byte) {
						copy(raw[flOff+16+8*(i+1):flOff+16+8*(i+2)], raw[flOff+16+8*i:flOff+16+8*(i+1)])
					})
				}
			}
		}
	}
	// 1b. the high-water mark raised by one in the active meta (checksum recomputed): the page it now covers is
	//     neither reachable nor free
	if d.Active >= 0 && int64(d.Hwm+1)*int64(ps) <= int64(len(raw)) {
		mo := pageOff(uint64(d.Active), ps) + 16
		add("unreachable-unfreed", "hwm-raised", func(raw []byte) {
			binary.LittleEndian.PutUint64(raw[mo+40:], d.Hwm+1)
			binary.LittleEndian.PutUint64(raw[mo+56:], fnv64a(raw[mo:mo+56]))
		})
	}
	// 3. a page referenced twice (branch element pointing at a sibling's child)
	for _, b := range branches {
		o := pageOff(b, ps)
		cnt := int(binary.LittleEndian.Uint16(raw[o+10:]))
		for i := 0; i+1 < cnt; i++ {
			i := i
			add("referenced-twice", fmt.Sprintf("branch%d-elem%d", b, i), func(raw []byte) {
				copy(raw[o+16+16*(i+1)+8:o+16+16*(i+1)+16], raw[o+16+16*i+8:o+16+16*i+16])
			})
		}
	}
	// 3c. a page whose overflow count is raised by one so that its run swallows the following page, which is
	//     itself reachable: that page is now referenced twice - once as a page, once as an overflow page
	inTree := map[uint64]bool{}
	for _, id := range tree {
		inTree[id] = true
	}
	for _, id := range append(append([]uint64{}, leafs...), branches...) {
		o := pageOff(id, ps)
		ov := binary.LittleEndian.Uint32(raw[o+12:])
		next := id + uint64(ov) + 1
		if next < d.Hwm && inTree[next] && (d.Types[next] == "leaf" || d.Types[next] == "branch") {
			add("overflow-overlap", fmt.Sprintf("pg%d-swallows-pg%d", id, next), func(raw []byte) { binary.LittleEndian.PutUint32(raw[o+12:], ov+1) })
		}
	}
	// 6b. a page whose first key is below the separator its parent holds for it (but still above the left
	//     sibling's keys): order relative to the PARENT is broken, order inside the page and between
	//     neighbouring pages is not
	for _, br := range branches {
		o := pageOff(br, ps)
		cnt := int(binary.LittleEndian.Uint16(raw[o+10:]))
		for i := 1; i < cnt; i++ {
			child := binary.LittleEndian.Uint64(raw[o+16+16*i+8:])
			co := pageOff(child, ps)
			if co+32 > len(raw) {
				continue
			}
			cflags := binary.LittleEndian.Uint16(raw[co+8:])
			ccnt := int(binary.LittleEndian.Uint16(raw[co+10:]))
			if ccnt == 0 {
				continue
			}
			var koff, klen int
			if cflags == flagLeaf {
				e := co + 16
				koff = e + int(binary.LittleEndian.Uint32(raw[e+4:]))
				klen = int(binary.LittleEndian.Uint32(raw[e+8:]))
			} else if cflags == flagBranch {
				e := co + 16
				koff = e + int(binary.LittleEndian.Uint32(raw[e:]))
				klen = int(binary.LittleEndian.Uint32(raw[e+4:]))
			} else {
				continue
			}
			if klen < 3 || koff+klen > len(raw) || raw[koff+klen-1] == 0 {
				continue
			}
			last := koff + klen - 1
			add("separator-order", fmt.Sprintf("branch%d-child%d-pg%d", br, i, child), func(raw []byte) { raw[last]-- })
		}
	}
	// 3b. two buckets sharing one root page (bucket headers inside leaf values)
	type bref struct{ off int }
	var brefs []bref
	for _, l := range leafs {
		o := pageOff(l, ps)
		cnt := int(binary.LittleEndian.Uint16(raw[o+10:]))
		for i := 0; i < cnt; i++ {
			e := o + 16 + 16*i
			if binary.LittleEndian.Uint32(raw[e:])&1 != 0 {
				pos := int(binary.LittleEndian.Uint32(raw[e+4:]))
				ks := int(binary.LittleEndian.Uint32(raw[e+8:]))
				v := e + pos + ks
				if binary.LittleEndian.Uint64(raw[v:]) != 0 {
					brefs = append(brefs, bref{v})
				}
			}
		}
	}
	for i := 0; i+1 < len(brefs); i++ {
		a, b := brefs[i].off, brefs[i+1].off
		add("referenced-twice", fmt.Sprintf("bucket-root-%d", i), func(raw []byte) { copy(raw[b:b+8], raw[a:a+8]) })
	}
	// 5. invalid page type
	for _, id := range append(append([]uint64{}, leafs...), branches...) {
		o := pageOff(id, ps)
		add("invalid-type", fmt.Sprintf("flags-pg%d", id), func(raw []byte) { binary.LittleEndian.PutUint16(raw[o+8:], 0x20) })
	}
	// 6. keys out of order: swap two adjacent elements (headers re-based so that they still point at valid bytes)
	for _, l := range leafs {
		o := pageOff(l, ps)
		cnt := int(binary.LittleEndian.Uint16(raw[o+10:]))
		for i := 0; i+1 < cnt; i++ {
			a := o + 16 + 16*i
			b := a + 16
			add("key-order", fmt.Sprintf("leaf%d-swap%d", l, i), func(raw []byte) {
				var ea, eb [16]byte
				copy(ea[:], raw[a:a+16])
				copy(eb[:], raw[b:b+16])
				posA := binary.LittleEndian.Uint32(ea[4:])
				posB := binary.LittleEndian.Uint32(eb[4:])
				binary.LittleEndian.PutUint32(eb[4:], posB+16) // now stored in slot i
				binary.LittleEndian.PutUint32(ea[4:], posA-16) // now stored in slot i+1
				copy(raw[a:], eb[:])
				copy(raw[b:], ea[:])
			})
		}
	}
	for _, br := range branches {
		o := pageOff(br, ps)
		cnt := int(binary.LittleEndian.Uint16(raw[o+10:]))
		for i := 0; i+1 < cnt; i++ {
			a := o + 16 + 16*i
			b := a + 16
			add("key-order", fmt.Sprintf("branch%d-swap%d", br, i), func(raw []byte) {
				var ea, eb [16]byte
				copy(ea[:], raw[a:a+16])
				copy(eb[:], raw[b:b+16])
				posA := binary.LittleEndian.Uint32(ea[0:])
				posB := binary.LittleEndian.Uint32(eb[0:])
				binary.LittleEndian.PutUint32(eb[0:], posB+16)
				binary.LittleEndian.PutUint32(ea[0:], posA-16)
				copy(raw[a:], eb[:])
				copy(raw[b:], ea[:])
			})
		}
	}
	return ms
}

func CheckC19(c *Ctx) int {
	c.Level = "fault_enumeration"
	c.Assume = []string{"the page graph of a (mutated) file is computed by the harness' independent decoder, which C12 cross-validates against Format.tla on the unmutated files",
		"TLC evaluates Format.tla's Consistent(graph) as the verdict function"}
	dir := filepath.Join(c.WorkDir, "files")
	_ = os.MkdirAll(dir, 0o755)
	files := buildFiles(dir, c.Pick(10, 60), c.Seed+11, false)
	type job struct {
		name string
		bf   *BuiltFile
		mut  *mutation
	}
	var jobs []job
	perClass := c.Pick(6, 40)
	classes := map[string]int{}
	for fi, bf := range files {
		raw, err := os.ReadFile(bf.Path)
		if err != nil {
			continue
		}
		d := DecodeBytes(raw)
		if !d.Consistent() {
			c.Findings = append(c.Findings, Finding{Scenario: Scenario{Name: fmt.Sprintf("file-%d", fi), Kind: "check"}, Spec: "decoder", Detail: fmt.Sprintf("file produced by commits is not consistent: %v", d.Problems)})
			continue
		}
		jobs = append(jobs, job{fmt.Sprintf("f%d-ps%d-unmutated", fi, bf.Opts.PageSize), bf, nil})
		ms := mutationsFor(raw, d, perClass)
		for i := range ms {
			classes[ms[i].class]++
			jobs = append(jobs, job{fmt.Sprintf("f%d-ps%d-%s-%s", fi, bf.Opts.PageSize, ms[i].class, ms[i].name), bf, &ms[i]})
		}
	}
	events := make([]Ev, len(jobs))
	var wg sync.WaitGroup
	sem := make(chan struct{}, 14)
	for i, j := range jobs {
		wg.Add(1)
		sem <- struct{}{}
		go func(i int, j job) {
			defer wg.Done()
			defer func() { <-sem }()
			raw, _ := os.ReadFile(j.bf.Path)
			if j.mut != nil {
				j.mut.apply(raw)
			}
			p := filepath.Join(dir, fmt.Sprintf("mut-%d.db", i))
			_ = os.WriteFile(p, raw, 0o600)
			defer os.Remove(p)
			d := DecodeBytes(raw)
			// library call, with the backend alternating; CLI (array backend, read-only + preload)
			obs := ObserveOpenSub(p, j.bf.Profile.Name, j.bf.Opts.PageSize, i%2 == 1)
			checkErrs := obs.CheckErrs
			if !obs.Opened {
				checkErrs = -1 // Open itself refused the file: a reported problem
			}
			_ = os.WriteFile(p, raw, 0o600) // ObserveOpen opened read-write: restore the mutated bytes for the CLI
			out, code := CLI(60*time.Second, "check", p)
			g := graphOf(d)
			events[i] = Ev{"ev": "Graph", "name": j.name, "g": g, "obs": map[string]any{"checkErrs": checkErrs, "cli": code, "first": obs.First, "panic": obs.Panic, "hashmap": i%2 == 1, "cliOut": Tail(out, 3)},
				"problems": append([]string{}, d.Problems...)}
		}(i, j)
	}
	wg.Wait()
	c.evalFormat(events, 8, "graph")
	if len(events) > 1 {
		c.AddSample(events[0])
		c.AddSample(events[1])
	}
	cl := []string{}
	for k, v := range classes {
		cl = append(cl, fmt.Sprintf("%s=%d", k, v))
	}
	sort.Strings(cl)
	c.Cov["mutation_classes"] = cl
	c.traces = len(events)
	c.Cov["evaluations"] = len(events)
	c.Cov["distinct_nontrivial"] = len(events)
	c.Cov["rule"] = "one copy per (consistent file, corruption class, eligible page / element): unreachable-unfreed (a free id dropped - always including the highest one - or the high-water mark raised by one), reachable-free, referenced-twice (branch element and bucket root), overflow-overlap (a page's overflow count raised so that its run covers the next reachable page), freed-twice, invalid-type, key-order (adjacent elements swapped), separator-order (first key of a page lowered below its parent's separator); plus every unmutated file; Tx.Check (array and hash-map backend alternating) and `bbolt check` (exit status) are compared with Consistent(graph) evaluated by TLC; all cases distinct by construction"
	return c.Finish(classifyC19)
}

func classifyC19(f Finding) string {
	return ""
}
