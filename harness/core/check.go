package core

import (
	"encoding/json"
	"fmt"
	"os"
	"os/signal"
	"path/filepath"
	"sort"
	"strconv"
	"strings"
	"syscall"
	"time"
)

// VerifRoot is /verif (evidence, known findings, replay artefacts live below it).
var VerifRoot = "/verif"

func init() {
	// ./check exports the directory it lives in, so a copy of /verif elsewhere is self-contained
	if r := os.Getenv("VERIF_ROOT"); r != "" {
		VerifRoot = r
		SpecDir = filepath.Join(r, "spec")
	}
}

// Ctx is the context of one check run.
type Ctx struct {
	ID      string
	Tier    string // quick | thorough
	Seed    int64
	Start   time.Time
	WorkDir string // scratch (removed at the end)
	ShmDir  string // scratch in /dev/shm for crash images (removed at the end)
	Replay  string // path of a replay artefact, if replaying

	Findings []Finding
	Infra    []string
	Known    []string // KNOWN-FINDING lines printed

	// evidence
	Level    string
	Cov      map[string]any
	Assume   []string
	mcStates int64
	mcTrans  int64
	mcRuns   []map[string]any
	traces   int
	samples  []any
}

func NewCtx(id, tier string) *Ctx {
	seed := int64(1)
	if v := os.Getenv("VERIF_SEED"); v != "" {
		if n, err := strconv.ParseInt(v, 10, 64); err == nil {
			seed = n
		}
	}
	wd, err := os.MkdirTemp("", "verif-"+id+"-")
	if err != nil {
		panic(err)
	}
	// every temporary file of this run - of this process, of the scenario children and of TLC - lives below
	// the work directory (and one directory in /dev/shm for crash images), so that one RemoveAll cleans up
	// whatever a killed or crashed child leaves behind
	tmp := filepath.Join(wd, "tmp")
	_ = os.MkdirAll(tmp, 0o755)
	_ = os.Setenv("TMPDIR", tmp)
	shm, err := os.MkdirTemp("/dev/shm", "verif-shm-")
	if err != nil {
		shm = filepath.Join(wd, "shm")
		_ = os.MkdirAll(shm, 0o755)
	}
	_ = os.Setenv("VERIF_SHMDIR", shm)
	c := &Ctx{ID: id, Tier: tier, Seed: seed, Start: time.Now(), WorkDir: wd, ShmDir: shm, Level: "model_checking", Cov: map[string]any{}}
	sig := make(chan os.Signal, 1)
	signal.Notify(sig, syscall.SIGINT, syscall.SIGTERM)
	go func() {
		<-sig
		c.Cleanup()
		os.Exit(2)
	}()
	return c
}

// Cleanup removes the scratch directories of the run.
func (c *Ctx) Cleanup() {
	_ = os.RemoveAll(c.WorkDir)
	if c.ShmDir != "" {
		_ = os.RemoveAll(c.ShmDir)
	}
}

func (c *Ctx) Thorough() bool { return c.Tier == "thorough" }

// Pick returns q in the quick tier and t in the thorough tier.
func (c *Ctx) Pick(q, t int) int {
	if c.Thorough() {
		// scenario counts of the thorough tier are scaled so that one check stays within tens of minutes on 16
		// cores (measured: unscaled, C02 alone ran > 1 h); VERIF_THOROUGH_SCALE=1 restores the full counts
		if t >= 40 {
			scale := 0.34
			if v, err := strconv.ParseFloat(os.Getenv("VERIF_THOROUGH_SCALE"), 64); err == nil && v > 0 {
				scale = v
			}
			if n := int(float64(t) * scale); n > q {
				return n
			}
			return q
		}
		return t
	}
	return q
}

// ModelCheck runs one MC_* configuration exhaustively and folds its counts into the evidence.
// A property violation on the model alone is an infrastructure failure (exit 2): verdicts
// only come from the real code.
func (c *Ctx) ModelCheck(module, cfg string, workers int, timeout time.Duration, extra ...string) TLCResult {
	r, err := RunTLC(TLCJob{Module: module, Config: cfg, Workers: workers, Timeout: timeout, HeapMB: 12000, Args: extra})
	if err != nil {
		c.Infra = append(c.Infra, fmt.Sprintf("model check %s/%s: %v", module, cfg, err))
		return r
	}
	run := map[string]any{"module": module, "config": cfg, "distinct_states": r.Distinct, "generated_states": r.Generated, "depth": r.Depth,
		"wall_s": r.Wall, "ok": r.OK, "timed_out": r.TimedOut}
	c.mcRuns = append(c.mcRuns, run)
	c.mcStates += r.Distinct
	c.mcTrans += r.Generated
	if !r.OK {
		c.Infra = append(c.Infra, fmt.Sprintf("model check %s/%s did not pass: %s %s", module, cfg, r.Violated, Tail(r.Output, 25)))
	}
	return r
}

// Absorb folds a batch outcome into the context.
func (c *Ctx) Absorb(o BatchOutcome) {
	c.Findings = append(c.Findings, o.Findings...)
	c.Infra = append(c.Infra, o.Infra...)
	c.traces += o.Traces
	if len(c.samples) < 4 {
		c.samples = append(c.samples, o.Samples...)
	}
	cnt, _ := c.Cov["counters"].(map[string]int)
	if cnt == nil {
		cnt = map[string]int{}
	}
	for k, v := range o.Counters {
		cnt[k] += v
	}
	c.Cov["counters"] = cnt
	ev, _ := c.Cov["trace_events_validated"].(int64)
	c.Cov["trace_events_validated"] = ev + o.Events
	ts, _ := c.Cov["trace_validation_states"].(int64)
	c.Cov["trace_validation_states"] = ts + o.TLCStates
}

func (c *Ctx) AddSample(s any) {
	if len(c.samples) < 6 {
		c.samples = append(c.samples, s)
	}
}

// ---------------------------------------------------------------- known findings

type KnownFinding struct {
	Property    string `json:"property"`
	ID          string `json:"id"`
	Description string `json:"description"`
}

type knownFile struct {
	Findings []KnownFinding `json:"findings"`
	Fixed    []string       `json:"fixed"`
}

func LoadKnown() map[string]KnownFinding {
	m := map[string]KnownFinding{}
	raw, err := os.ReadFile(filepath.Join(VerifRoot, "KNOWN_FINDINGS.json"))
	if err != nil {
		return m
	}
	var kf knownFile
	if json.Unmarshal(raw, &kf) != nil {
		return m
	}
	for _, f := range kf.Findings {
		m[f.ID] = f
	}
	return m
}

// Finish prints the verdict lines, writes the evidence file and returns the exit code.
// classify maps a reproduced finding to the id of a known finding ("" = new violation).
func (c *Ctx) Finish(classify func(Finding) string) int {
	defer c.Cleanup()
	buildPanicMu.Lock()
	for _, bp := range BuildPanics {
		c.Findings = append(c.Findings, Finding{Scenario: Scenario{Name: "build-file", Kind: "history"}, Spec: "harness", Detail: "the real code panicked while executing a generated history: " + Tail(bp, 12)})
	}
	BuildPanics = nil
	buildPanicMu.Unlock()
	known := LoadKnown()
	violations := 0
	replayDir := filepath.Join(VerifRoot, "out", "replay")
	_ = os.MkdirAll(replayDir, 0o755)
	seenKnown := map[string]bool{}
	for i, f := range c.Findings {
		kid := ""
		if classify != nil {
			kid = classify(f)
		}
		if k, ok := known[kid]; ok && kid != "" && k.Property == c.ID {
			if !seenKnown[kid] {
				fmt.Printf("KNOWN-FINDING: property=%s %s: %s\n", c.ID, kid, k.Description)
				seenKnown[kid] = true
			}
			continue
		}
		violations++
		path := filepath.Join(replayDir, fmt.Sprintf("%s-%d.json", c.ID, i+1))
		art := map[string]any{"property": c.ID, "scenario": f.Scenario, "spec": f.Spec, "detail": f.Detail, "line": f.Line, "seed": c.Seed, "tier": c.Tier}
		if f.TraceFile != "" {
			// keep the rejected execution next to the artefact: --replay re-validates exactly it
			tp := filepath.Join(replayDir, fmt.Sprintf("%s-%d.%s.ndjson", c.ID, i+1, f.Spec))
			if copyFile(f.TraceFile, tp) == nil {
				art["trace"] = tp
			}
		}
		b, _ := json.MarshalIndent(art, "", " ")
		_ = os.WriteFile(path, b, 0o644)
		fmt.Printf("VIOLATION property=%s replay=%s\n", c.ID, path)
		d := f.Detail
		if len(d) > 1500 {
			d = d[:1500] + "..."
		}
		fmt.Printf("  scenario=%s spec=%s: %s\n", f.Scenario.Name, f.Spec, d)
		if violations >= 10 {
			fmt.Printf("  (further violations suppressed)\n")
			break
		}
	}
	for _, s := range c.Infra {
		if len(s) > 3000 {
			s = s[:3000]
		}
		fmt.Printf("INFRA: %s\n", s)
	}
	c.writeEvidence(violations)
	switch {
	case violations > 0:
		return 1
	case len(c.Infra) > 0:
		return 2
	}
	fmt.Printf("OK property=%s tier=%s seed=%d wall=%.1fs\n", c.ID, c.Tier, c.Seed, time.Since(c.Start).Seconds())
	return 0
}

func (c *Ctx) writeEvidence(violations int) {
	cov := map[string]any{}
	for k, v := range c.Cov {
		cov[k] = v
	}
	if c.Level == "model_checking" {
		st, tr := c.mcStates, c.mcTrans
		if ts, ok := c.Cov["trace_validation_states"].(int64); ok {
			st += ts
			tr += ts
		}
		cov["states"] = st
		cov["transitions"] = tr
		cov["traces_validated_against_impl"] = c.traces
		cov["model_checking_runs"] = c.mcRuns
	}
	if len(c.samples) == 0 {
		c.samples = append(c.samples, "no sample recorded")
	}
	cov["samples"] = c.samples
	ev := map[string]any{
		"property_id": c.ID, "tier": c.Tier, "seed": c.Seed, "level": c.Level, "coverage": cov,
		"assumptions": c.Assume, "wall_s": time.Since(c.Start).Seconds(), "violations": violations,
		"known_findings_reported": len(c.Known), "infrastructure_failures": len(c.Infra),
	}
	dir := filepath.Join(VerifRoot, "evidence")
	_ = os.MkdirAll(dir, 0o755)
	b, _ := json.MarshalIndent(ev, "", " ")
	_ = os.WriteFile(filepath.Join(dir, c.ID+".json"), b, 0o644)
}

// DistinctNontrivial counts scenarios whose counters satisfy pred, distinct by name.
func DistinctNontrivial(per map[string]map[string]int, pred func(map[string]int) bool) int {
	n := 0
	names := make([]string, 0, len(per))
	for k := range per {
		names = append(names, k)
	}
	sort.Strings(names)
	for _, k := range names {
		if pred(per[k]) {
			n++
		}
	}
	return n
}

// ReplayTrace re-validates the recorded execution kept with a replay artefact (if any).
// Returns handled = false when the artefact carries no trace (the scenario is then re-executed).
func (c *Ctx) ReplayTrace(path string) (handled bool) {
	var art struct {
		Scenario Scenario `json:"scenario"`
		Spec     string   `json:"spec"`
		Trace    string   `json:"trace"`
	}
	raw, err := os.ReadFile(path)
	if err != nil || json.Unmarshal(raw, &art) != nil || art.Trace == "" {
		return false
	}
	if _, err := os.Stat(art.Trace); err != nil {
		return false
	}
	name := "trace.ndjson"
	if art.Spec == "EvalFormat" {
		name = "files.ndjson"
	}
	r, err := RunTLC(TLCJob{Module: art.Spec, Config: art.Spec + ".cfg", Files: map[string]string{name: art.Trace}, Timeout: 15 * time.Minute, HeapMB: 3000})
	if err != nil {
		c.Infra = append(c.Infra, err.Error())
		return true
	}
	c.mcStates, c.mcTrans, c.traces = r.Distinct+1, r.Generated+1, 1
	c.Cov["evaluations"], c.Cov["distinct_nontrivial"] = 2, 2
	c.AddSample(map[string]any{"replayed_trace": art.Trace, "scenario": art.Scenario.Name})
	if !r.OK {
		if r.Rejected == 0 {
			c.Infra = append(c.Infra, "replay did not finish: "+Tail(r.Output, 10))
		} else {
			c.Findings = append(c.Findings, Finding{Scenario: art.Scenario, Spec: art.Spec, Detail: r.Mismatch, Line: r.Rejected, TraceFile: art.Trace})
		}
	}
	return true
}

// LoadReplay reads a replay artefact.
func LoadReplay(path string) (Scenario, error) {
	var art struct {
		Scenario Scenario `json:"scenario"`
	}
	raw, err := os.ReadFile(path)
	if err != nil {
		return Scenario{}, err
	}
	if err := json.Unmarshal(raw, &art); err != nil {
		return Scenario{}, err
	}
	return art.Scenario, nil
}

func Contains(s string, subs ...string) bool {
	for _, x := range subs {
		if strings.Contains(s, x) {
			return true
		}
	}
	return false
}

// ChildTimeout bounds one child process (a batch of scenarios): quick batches finish in well under a
// minute; the bound only matters when the code under test hangs or loops.
func (c *Ctx) ChildTimeout() time.Duration {
	if c.Thorough() {
		return 15 * time.Minute
	}
	return 5 * time.Minute
}

// PanicInRealCode reports whether the innermost non-runtime frame below panic() in a stack dump belongs to
// the code under test (go.etcd.io/bbolt) rather than to the harness.
func PanicInRealCode(stack string) bool {
	lines := strings.Split(stack, "\n")
	seenPanic := false
	for _, l := range lines {
		if strings.HasPrefix(l, "\t") || l == "" {
			continue
		}
		if strings.HasPrefix(l, "panic(") {
			seenPanic = true
			continue
		}
		if !seenPanic || strings.HasPrefix(l, "runtime.") || strings.HasPrefix(l, "runtime/") {
			continue
		}
		return strings.HasPrefix(l, "go.etcd.io/bbolt")
	}
	return false
}
