package core

import (
	"encoding/binary"
	"encoding/json"
	"fmt"
	"math/rand"
	"os"
	"path/filepath"
	"regexp"
	"sort"
	"strings"
	"sync/atomic"
	"time"

	"go.etcd.io/bbolt/verifbridge"
)

// C09: the allocator contract on both backends, through the bridge package.

type FLStep struct {
	Op  string   `json:"op"`
	Ids []uint64 `json:"ids,omitempty"`
	N   int      `json:"n,omitempty"`
	P   uint64   `json:"p,omitempty"`
	Ov  uint32   `json:"ov,omitempty"`
	T   uint64   `json:"t,omitempty"`
}

type flRunner struct {
	f        *verifbridge.Freelist
	backend  string
	wtx      uint64
	maxPage  uint64
	allocBy  map[uint64]uint64
	pageSize int
	out      []Ev
	readers  map[uint64]int
	saved    []byte
}

func other(b string) string {
	if b == "array" {
		return "hashmap"
	}
	return "array"
}

func (r *flRunner) obs() map[string]any {
	free, pend, readers := r.f.Snapshot()
	freed := []uint64{}
	for id := uint64(0); id <= r.maxPage+4; id++ {
		if r.f.Freed(id) {
			freed = append(freed, id)
		}
	}
	return map[string]any{"free": free, "pend": pend, "readers": readers, "freeN": r.f.FreeCount(), "pendN": r.f.PendingCount(),
		"count": r.f.Count(), "freed": freed, "copyall": r.f.Copyall()}
}

// decodeFLImage reads a freelist page image with nothing but the published layout.
func decodeFLImage(img []byte) map[string]any {
	count := int(binary.LittleEndian.Uint16(img[10:]))
	flags := binary.LittleEndian.Uint16(img[8:])
	n, idx, lead := count, 0, uint64(0)
	if count == 0xFFFF {
		lead = binary.LittleEndian.Uint64(img[16:])
		n = int(lead)
		idx = 1
	}
	ids := make([]uint64, 0, n)
	for i := 0; i < n; i++ {
		ids = append(ids, binary.LittleEndian.Uint64(img[16+(idx+i)*8:]))
	}
	return map[string]any{"count": count, "lead": lead, "ids": ids, "flags": flags}
}

func (r *flRunner) exec(st FLStep) (err error) {
	defer func() {
		if p := recover(); p != nil {
			err = fmt.Errorf("panic in %s: %v", st.Op, p)
		}
	}()
	switch st.Op {
	case "Init":
		r.f = verifbridge.NewFreelist(r.backend)
		ids := append([]uint64(nil), st.Ids...)
		sort.Slice(ids, func(i, j int) bool { return ids[i] < ids[j] })
		r.f.Init(ids)
		r.wtx = 1
		r.allocBy = map[uint64]uint64{}
		r.readers = map[uint64]int{}
		if ids == nil {
			ids = []uint64{}
		}
		r.out = append(r.out, Ev{"ev": "FLInit", "backend": r.backend, "ids": ids, "obs": r.obs()})
		return nil
	case "NextTx":
		r.wtx++
		return nil
	case "Allocate":
		s := r.f.Allocate(r.wtx, st.N)
		if s != 0 {
			r.allocBy[s] = r.wtx
		}
		r.out = append(r.out, Ev{"ev": "FLOp", "op": "Allocate", "t": r.wtx, "n": st.N, "res": s, "obs": r.obs()})
	case "Free":
		// only legal frees: every page of the run in use, not allocated by this very transaction
		if st.P < 2 || st.P+uint64(st.Ov) > r.maxPage {
			return nil
		}
		if m, ok := r.f.AllocMark(st.P); ok && m == r.wtx {
			return nil // "a writing transaction never frees a page it allocated itself"
		}
		for q := st.P; q <= st.P+uint64(st.Ov); q++ {
			if r.f.Freed(q) {
				return nil
			}
		}
		r.f.Free(r.wtx, st.P, st.Ov)
		delete(r.allocBy, st.P)
		r.out = append(r.out, Ev{"ev": "FLOp", "op": "Free", "t": r.wtx, "p": st.P, "ov": st.Ov, "obs": r.obs()})
	case "Rollback":
		r.f.Rollback(r.wtx)
		for p, t := range r.allocBy {
			if t == r.wtx {
				delete(r.allocBy, p)
			}
		}
		// the allocation marks of pages this transaction freed are restored by the allocator; the
		// driver's own bookkeeping only has to stay conservative (it never blocks a legal free of
		// those pages because their mark is older than the current transaction)
		r.out = append(r.out, Ev{"ev": "FLOp", "op": "Rollback", "t": r.wtx, "obs": r.obs()})
	case "AddReader":
		t := st.T
		if t == 0 || t > r.wtx {
			t = r.wtx
		}
		r.f.AddReadonlyTXID(t)
		r.readers[t]++
		r.out = append(r.out, Ev{"ev": "FLOp", "op": "AddReader", "t": t, "obs": r.obs()})
	case "RemoveReader":
		if r.readers[st.T] == 0 {
			return nil
		}
		r.f.RemoveReadonlyTXID(st.T)
		r.readers[st.T]--
		r.out = append(r.out, Ev{"ev": "FLOp", "op": "RemoveReader", "t": st.T, "obs": r.obs()})
	case "Release":
		r.f.ReleasePendingPages()
		r.out = append(r.out, Ev{"ev": "FLOp", "op": "Release", "obs": r.obs()})
	case "NoSyncReload":
		ids := r.f.Copyall()
		r.f.NoSyncReload(ids)
		r.out = append(r.out, Ev{"ev": "FLOp", "op": "NoSyncReload", "ids": ids, "obs": r.obs()})
	case "Reload":
		img := r.f.WriteImage(r.pageSize)
		r.f.ReloadImage(img)
		r.out = append(r.out, Ev{"ev": "FLOp", "op": "Reload", "image": decodeFLImage(img), "obs": r.obs()})
	case "Save":
		r.saved = r.f.WriteImage(r.pageSize)
		r.out = append(r.out, Ev{"ev": "FLOp", "op": "Save", "image": decodeFLImage(r.saved), "obs": r.obs()})
	case "ReloadSaved":
		if r.saved == nil {
			return nil
		}
		img := append([]byte(nil), r.saved...)
		r.f.ReloadImage(img)
		r.out = append(r.out, Ev{"ev": "FLOp", "op": "ReloadSaved", "image": decodeFLImage(img), "obs": r.obs()})
	case "WriteRead":
		r.saved = nil
		for _, n := range r.readers {
			if n > 0 {
				return nil // Close waits for readers
			}
		}
		img := r.f.WriteImage(r.pageSize)
		r.backend = other(r.backend)
		r.f = verifbridge.NewFreelist(r.backend)
		r.f.ReadImage(img)
		r.allocBy = map[uint64]uint64{}
		r.readers = map[uint64]int{}
		r.out = append(r.out, Ev{"ev": "FLOp", "op": "WriteRead", "image": decodeFLImage(img), "backend": r.backend, "obs": r.obs()})
	}
	return nil
}

// OverflowImages counts the freelist page images written with the 0xFFFF count convention (evidence).
var OverflowImages atomic.Int64

type flProgram struct {
	Name    string   `json:"name"`
	Backend string   `json:"backend"`
	MaxPage uint64   `json:"maxPage"`
	Steps   []FLStep `json:"steps"`
}

// runFLPrograms executes programs in this process (the allocator is pure memory) and writes one trace.
func runFLPrograms(progs []flProgram, traceFile string) (lines []int, failures []string, nOps int, err error) {
	f, err := os.Create(traceFile)
	if err != nil {
		return nil, nil, 0, err
	}
	defer f.Close()
	line := 0
	for _, p := range progs {
		r := &flRunner{backend: p.Backend, maxPage: p.MaxPage, pageSize: 4096}
		for _, st := range p.Steps {
			if r.f == nil && st.Op != "Init" {
				continue
			}
			if e := r.exec(st); e != nil {
				failures = append(failures, p.Name+": "+e.Error())
				break
			}
		}
		for _, e := range r.out {
			if im, ok := e["image"].(map[string]any); ok && im["count"] == 0xFFFF {
				OverflowImages.Add(1)
			}
			b, _ := json.Marshal(e)
			f.Write(append(b, '\n'))
			line++
		}
		nOps += len(r.out)
		lines = append(lines, line)
	}
	return lines, failures, nOps, nil
}

var reFLBeh = regexp.MustCompile(`^<<"BEH", (\d+), "(.*)">>$`)

func simFLPrograms(num, depth int, seed int64) ([][]FLStep, TLCResult, error) {
	r, err := RunTLC(TLCJob{Module: "Freelist", Config: "MC_Freelist_sim.cfg", Workers: 1, Timeout: 10 * time.Minute, HeapMB: 4000,
		Args: []string{"-simulate", fmt.Sprintf("num=%d", num), "-depth", fmt.Sprint(depth), "-seed", fmt.Sprint(seed)}})
	if err != nil {
		return nil, r, err
	}
	seen := map[string]bool{}
	var progs [][]FLStep
	for _, line := range strings.Split(r.Output, "\n") {
		m := reFLBeh.FindStringSubmatch(strings.TrimSpace(line))
		if m == nil || seen[m[1]] {
			continue
		}
		seen[m[1]] = true
		js := strings.ReplaceAll(strings.ReplaceAll(m[2], `\"`, `"`), `\\`, `\`)
		var steps []FLStep
		if err := json.Unmarshal([]byte(js), &steps); err != nil {
			return nil, r, fmt.Errorf("cannot parse behaviour: %v", err)
		}
		progs = append(progs, steps)
	}
	return progs, r, nil
}

func randomFLProgram(rng *rand.Rand, maxPage uint64, steps int, maxRun int) []FLStep {
	var ids []uint64
	for p := uint64(2); p <= maxPage; p++ {
		if rng.Intn(3) > 0 {
			ids = append(ids, p)
		}
	}
	prog := []FLStep{{Op: "Init", Ids: ids}}
	wtx := uint64(1)
	var readers []uint64
	for i := 0; i < steps; i++ {
		switch rng.Intn(14) {
		case 0, 1, 2:
			prog = append(prog, FLStep{Op: "Allocate", N: 1 + rng.Intn(maxRun)})
		case 3, 4, 5, 6:
			prog = append(prog, FLStep{Op: "Free", P: 2 + uint64(rng.Intn(int(maxPage-1))), Ov: uint32(rng.Intn(maxRun))})
		case 7:
			prog = append(prog, FLStep{Op: "Rollback"})
		case 8, 9:
			prog = append(prog, FLStep{Op: "NextTx"})
			wtx++
		case 10:
			t := 1 + uint64(rng.Intn(int(wtx)))
			prog = append(prog, FLStep{Op: "AddReader", T: t})
			readers = append(readers, t)
		case 11:
			if len(readers) > 0 {
				i := rng.Intn(len(readers))
				prog = append(prog, FLStep{Op: "RemoveReader", T: readers[i]})
				readers = append(readers[:i], readers[i+1:]...)
			}
		case 12:
			prog = append(prog, FLStep{Op: "Release"})
		case 13:
			prog = append(prog, FLStep{Op: []string{"Reload", "WriteRead", "NoSyncReload", "Release", "Save", "ReloadSaved", "ReloadSaved"}[rng.Intn(7)]})
		}
	}
	return prog
}

func CheckC09(c *Ctx) int {
	c.Assume = []string{"TLC 1.8.0 evaluates the specification correctly", "the bridge package (tag verif) forwards calls to internal/freelist unchanged",
		"the driver issues only calls whose precondition holds (Free of a page in use, not allocated by the same transaction)"}
	c.ModelCheck("Freelist", "MC_Freelist.cfg", 16, 30*time.Minute)
	if c.Thorough() {
		c.ModelCheck("Freelist", "MC_Freelist_deep.cfg", 16, 60*time.Minute)
	}
	// unbounded counterpart of the model-checked invariants: the TLAPS proof that the contract keeps free and
	// pending disjoint, meta-page-free and with one pending record per page, for every value of the constants
	// (auxiliary: a proof about the specification alone never decides the verdict about the code)
	if n, _, perr := RunTLAPS("FreelistProof", 6*time.Minute); perr == nil {
		c.Cov["tlaps_FreelistProof"] = fmt.Sprintf("all %d obligations proved (Disjoint, NoMetaPages, one pending record per page: inductive for every MaxPage / MaxTxid / MaxRun / MaxReaders)", n)
	} else {
		c.Cov["tlaps_FreelistProof"] = "not re-checked in this run: " + perr.Error()
	}
	sims, r, err := simFLPrograms(c.Pick(300, 5000), 40, c.Seed)
	if err != nil || len(sims) == 0 {
		c.Infra = append(c.Infra, fmt.Sprintf("TLC produced no allocator programs: %v %s", err, Tail(r.Output, 10)))
	}
	c.Cov["tlc_generated_programs"] = len(sims)
	var progs []flProgram
	for i, s := range sims {
		for _, b := range []string{"array", "hashmap"} {
			progs = append(progs, flProgram{Name: fmt.Sprintf("sim-%d-%s", i, b), Backend: b, MaxPage: 9, Steps: s})
		}
	}
	rng := rand.New(rand.NewSource(c.Seed))
	nr := c.Pick(200, 5000)
	for i := 0; i < nr; i++ {
		mp := []uint64{12, 64, 300, 4096}[i%4]
		p := randomFLProgram(rng, mp, 30+rng.Intn(60), 1+rng.Intn(8))
		progs = append(progs, flProgram{Name: fmt.Sprintf("rnd-%d", i), Backend: []string{"array", "hashmap"}[i%2], MaxPage: mp, Steps: p})
	}
	progs = append(progs, bigFreelistPrograms()...)
	ops := c.runFreelistPrograms(progs, 14)
	c.traces = len(progs)
	c.Cov["evaluations"] = ops
	c.Cov["freelist_images_with_0xFFFF_count"] = OverflowImages.Load()
	if OverflowImages.Load() == 0 {
		c.Infra = append(c.Infra, "the > 65534-id scenario did not produce a page image with the 0xFFFF count convention")
	}
	c.Cov["distinct_nontrivial"] = len(progs)
	c.Cov["rule"] = "evaluations = allocator operations executed on a real backend whose complete observable post-state TLC compared with Freelist.tla; each program (TLC-generated on the 8-page universe, run on both backends; randomized on 12..4096 page ids; the > 65534-id scenario) is distinct by construction"
	c.AddSample(map[string]any{"program": progs[0]})
	return c.Finish(nil)
}

// bigFreelistPrograms exercise the 0xFFFF count convention: more than 65534 free + pending ids.
func bigFreelistPrograms() []flProgram {
	var ids []uint64
	for p := uint64(2); p < 70000; p++ {
		if p%97 != 0 {
			ids = append(ids, p)
		}
	}
	big := []FLStep{{Op: "Init", Ids: ids}, {Op: "NextTx"}, {Op: "Free", P: 97 * 3, Ov: 0}, {Op: "Allocate", N: 5},
		{Op: "WriteRead"}, {Op: "Allocate", N: 2}, {Op: "WriteRead"}}
	return []flProgram{{Name: "big-array", Backend: "array", MaxPage: 70000, Steps: big}, {Name: "big-hashmap", Backend: "hashmap", MaxPage: 70000, Steps: big}}
}

// runFreelistPrograms executes allocator programs on the real backends and validates the recorded
// operations with TraceFreelist (sharded over JVMs). Returns the number of operations validated.
func (c *Ctx) runFreelistPrograms(progs []flProgram, shards int) int {
	// shard into trace files, validate each with TLC
	type shardRes struct {
		findings []Finding
		infra    []string
		ops      int
		states   int64
	}
	resCh := make(chan shardRes, shards)
	per := (len(progs) + shards - 1) / shards
	nsh := 0
	for sIdx := 0; sIdx < shards; sIdx++ {
		a, b := sIdx*per, (sIdx+1)*per
		if a >= len(progs) {
			break
		}
		if b > len(progs) {
			b = len(progs)
		}
		nsh++
		go func(sIdx int, ps []flProgram) {
			var sr shardRes
			tf := filepath.Join(c.WorkDir, fmt.Sprintf("fl-%d.ndjson", sIdx))
			lines, fails, ops, err := runFLPrograms(ps, tf)
			sr.ops = ops
			if err != nil {
				sr.infra = append(sr.infra, err.Error())
				resCh <- sr
				return
			}
			for _, f := range fails {
				sr.findings = append(sr.findings, Finding{Scenario: Scenario{Name: f, Kind: "freelist"}, Spec: "harness", Detail: "allocator panicked on a legal call: " + f})
			}
			r, err := RunTLC(TLCJob{Module: "TraceFreelist", Config: "TraceFreelist.cfg", Files: map[string]string{"trace.ndjson": tf}, Timeout: 20 * time.Minute, HeapMB: 3000})
			if err != nil {
				sr.infra = append(sr.infra, err.Error())
			} else if !r.OK {
				if r.Rejected == 0 {
					sr.infra = append(sr.infra, "TraceFreelist did not finish: "+Tail(r.Output, 10))
				} else {
					name := "?"
					var prog flProgram
					for i, end := range lines {
						if r.Rejected <= end {
							name = ps[i].Name
							prog = ps[i]
							break
						}
					}
					pj, _ := json.Marshal(prog)
					sr.findings = append(sr.findings, Finding{Scenario: Scenario{Name: name, Kind: "freelist", Profile: string(pj)}, Spec: "TraceFreelist", Detail: r.Mismatch, Line: r.Rejected})
				}
			}
			sr.states = r.Distinct
			resCh <- sr
		}(sIdx, progs[a:b])
	}
	ops := 0
	for i := 0; i < nsh; i++ {
		sr := <-resCh
		c.Findings = append(c.Findings, sr.findings...)
		c.Infra = append(c.Infra, sr.infra...)
		ops += sr.ops
		ts, _ := c.Cov["trace_validation_states"].(int64)
		c.Cov["trace_validation_states"] = ts + sr.states
	}
	return ops
}
