package core

import (
	"encoding/json"
	"errors"
	"fmt"
	bolt "go.etcd.io/bbolt"
	"math/rand"
	"os"
	"os/exec"
	"path/filepath"
	"runtime"
	"runtime/debug"
	"sort"
	"strings"
	"sync"
	"time"
)

// Scenario is one self-contained run against a fresh database file: it fully determines the
// execution (it is also the replay artefact written on a violation).
type Scenario struct {
	Name    string         `json:"name"`
	Kind    string         `json:"kind"` // random | program | concurrent | cursor | ...
	Seed    int64          `json:"seed"`
	Opts    Opts           `json:"opts"`
	Profile string         `json:"profile"`
	Gen     *GenCfg        `json:"gen,omitempty"`
	Program []Step         `json:"program,omitempty"`
	Observe bool           `json:"observe"` // page-level observations (Decoded / Stats / Check)
	Params  map[string]int `json:"params,omitempty"`
}

// ScenarioResult is what the child reports for one scenario.
type ScenarioResult struct {
	Name     string         `json:"name"`
	KVFrom   int            `json:"kvFrom"` // first line (1-based) of this scenario in the batch's kv trace
	KVTo     int            `json:"kvTo"`
	BoltFrom int            `json:"boltFrom"`
	BoltTo   int            `json:"boltTo"`
	Panic    string         `json:"panic,omitempty"`
	Hang     string         `json:"hang,omitempty"`
	Failures []string       `json:"failures,omitempty"` // harness-side hard failures (e.g. EndBadResult)
	Counters map[string]int `json:"counters,omitempty"`
	Sample   []Ev           `json:"sample,omitempty"`
}

// Job is the unit of work of one child process.
type Job struct {
	Scenarios []Scenario `json:"scenarios"`
	OutDir    string     `json:"outDir"`
	Tag       string     `json:"tag"`
}

type JobResult struct {
	Tag      string           `json:"tag"`
	Results  []ScenarioResult `json:"results"`
	KVFile   string           `json:"kvFile"`
	BoltFile string           `json:"boltFile"`
}

// ScenarioRunner executes one scenario kind inside the child. Registered by the property files.
type ScenarioRunner func(sc Scenario, s *Session, rng *rand.Rand, res *ScenarioResult)

var runners = map[string]ScenarioRunner{}

func RegisterRunner(kind string, r ScenarioRunner) { runners[kind] = r }

func init() {
	RegisterRunner("random", func(sc Scenario, s *Session, rng *rand.Rand, res *ScenarioResult) {
		if err := s.Open(true); err != nil {
			panic(err)
		}
		s.RunRandom(rng, *sc.Gen)
		var final map[string]any
		if sc.Params["cli"] == 1 && s.DB != nil {
			_ = s.DB.View(func(tx *bolt.Tx) error { final = s.dumpBucket(tx, nil); return nil })
		}
		if err := s.CloseAll(); err != nil {
			res.Failures = append(res.Failures, "close: "+err.Error())
		}
		if final != nil {
			ev := cliView(s.Path, s.Prof, final, rng)
			s.T.Add(ev)
			res.Counters["cli_views"]++
			if ks, ok := ev["keys"].([]map[string]any); ok {
				res.Counters["cli_keys_listings"] += len(ks)
			}
			if gs, ok := ev["gets"].([]map[string]any); ok {
				res.Counters["cli_gets"] += len(gs)
			}
		}
	})
}

func countEvents(evs []Ev, c map[string]int) {
	for _, e := range evs {
		name, _ := e["ev"].(string)
		switch name {
		case "Op":
			c["op"]++
			if r, _ := e["res"].(string); r != "ok" {
				c["op_err"]++
			}
		case "Cur":
			c["cur"]++
		case "Dump":
			c["dump"]++
		case "End":
			c["tx_end"]++
			if f, _ := e["forced"].(bool); f {
				c["reader_closed_for_remap"]++
			}
		case "Alloc":
			c["alloc"]++
			if n, _ := e["n"].(int); n > 1 {
				c["alloc_multi"]++
			}
			if ff, _ := e["fromFree"].(bool); ff {
				c["alloc_from_free"]++
			}
		case "Free":
			c["free"]++
		case "MetaWrite":
			c["commit"]++
		case "Reopen":
			c["reopen"]++
		case "IO":
			c["io"]++
		case "Decoded":
			c["decoded"]++
		}
	}
}

// RunJob runs in the child process.
func RunJob(jobPath string) error {
	raw, err := os.ReadFile(jobPath)
	if err != nil {
		return err
	}
	var job Job
	if err := json.Unmarshal(raw, &job); err != nil {
		return err
	}
	if err := os.MkdirAll(job.OutDir, 0o755); err != nil {
		return err
	}
	jr := JobResult{Tag: job.Tag, KVFile: filepath.Join(job.OutDir, job.Tag+".kv.ndjson"), BoltFile: filepath.Join(job.OutDir, job.Tag+".bolt.ndjson")}
	hangFile := filepath.Join(job.OutDir, job.Tag+".hang.json")
	resFile := filepath.Join(job.OutDir, job.Tag+".result.json")
	kvf, err := os.Create(jr.KVFile)
	if err != nil {
		return err
	}
	defer kvf.Close()
	bf, err := os.Create(jr.BoltFile)
	if err != nil {
		return err
	}
	defer bf.Close()
	kvLine, boltLine := 0, 0
	flush := func() {
		b, _ := json.MarshalIndent(jr, "", " ")
		_ = os.WriteFile(resFile, b, 0o644)
	}
	// memory guard: a runaway child must not take the machine down (an OOM is an infrastructure
	// failure, never a verdict)
	go func() {
		for {
			time.Sleep(2 * time.Second)
			var ms runtime.MemStats
			runtime.ReadMemStats(&ms)
			if ms.Sys > 8<<30 {
				fmt.Fprintln(os.Stderr, "verif child: memory guard tripped (", ms.Sys>>20, "MiB ), giving up")
				os.Exit(7)
			}
		}
	}()
	dbdir, err := os.MkdirTemp("", "verif-db-")
	if err != nil {
		return err
	}
	defer os.RemoveAll(dbdir)
	for i, sc := range job.Scenarios {
		res := ScenarioResult{Name: sc.Name, Counters: map[string]int{}}
		t := NewTracer()
		t.NoData = true
		t.Install()
		ps := sc.Opts.PageSize
		if ps == 0 {
			ps = 4096
			sc.Opts.PageSize = ps
		}
		path := filepath.Join(dbdir, fmt.Sprintf("db-%d", i))
		s := NewSession(path, sc.Opts, ProfileByName(ps, sc.Profile), t)
		s.Label = sc.Name
		s.HangFile = hangFile
		s.AutoObserve = sc.Observe
		rng := rand.New(rand.NewSource(sc.Seed))
		// publish what we know before running, so that a hang (exit 3) is attributable
		jr.Results = append(jr.Results, ScenarioResult{Name: sc.Name, Hang: "running"})
		flush()
		func() {
			defer func() {
				if p := recover(); p != nil {
					res.Panic = fmt.Sprintf("%v\n%s", p, string(debug.Stack()))
					func() {
						defer func() { _ = recover() }()
						Uninstall()
					}()
				}
			}()
			r := runners[sc.Kind]
			if r == nil {
				panic("unknown scenario kind " + sc.Kind)
			}
			r(sc, s, rng, &res)
		}()
		Uninstall()
		evs := t.Snapshot()
		countEvents(evs, res.Counters)
		for _, e := range evs {
			if e["ev"] == "EndBadResult" || e["ev"] == "DecodeFailed" {
				res.Failures = append(res.Failures, fmt.Sprintf("%v", e))
			}
		}
		res.KVFrom = kvLine + 1
		for _, e := range evs {
			if KeepKV(e) {
				b, err := json.Marshal(e)
				if err != nil {
					return err
				}
				kvf.Write(append(b, '\n'))
				kvLine++
			}
		}
		res.KVTo = kvLine
		res.BoltFrom = boltLine + 1
		for _, e := range NormalizeBolt(evs) {
			b, err := json.Marshal(e)
			if err != nil {
				return err
			}
			bf.Write(append(b, '\n'))
			boltLine++
		}
		res.BoltTo = boltLine
		if len(evs) > 0 && i == 0 {
			n := len(evs)
			if n > 12 {
				n = 12
			}
			for _, e := range evs[:n] {
				if e["ev"] != "Dump" && e["ev"] != "Decoded" {
					res.Sample = append(res.Sample, e)
				}
			}
		}
		jr.Results[len(jr.Results)-1] = res
		_ = os.Remove(path)
	}
	flush()
	return nil
}

// ---------------------------------------------------------------- parent side

// Finding is one reproduced mismatch.
type Finding struct {
	Scenario  Scenario
	Spec      string // TraceKV | TraceBolt | harness
	Detail    string
	Line      int
	TraceFile string // the recorded execution TLC rejected (kept under /verif/out/traces)
}

// BatchOutcome aggregates what a set of scenarios covered.
type BatchOutcome struct {
	Findings    []Finding
	Infra       []string // infrastructure failures (exit 2)
	Counters    map[string]int
	Traces      int   // traces (scenarios) validated against the implementation
	Events      int64 // trace lines validated
	TLCStates   int64
	Samples     []any
	PerScenario map[string]map[string]int
}

// ErrHarness marks failures of the harness itself (never a verdict about the code under test).
var ErrHarness = errors.New("harness failure")

// Self is the path of the running binary (children are the same binary).
func Self() string {
	p, err := os.Executable()
	if err != nil {
		return os.Args[0]
	}
	return p
}

type ValidateSpec struct {
	KV   bool
	Bolt bool
}

// RunScenarios distributes scenarios over child processes, validates the recorded traces with
// TLC, and triages rejections per scenario.
func RunScenarios(scs []Scenario, vs ValidateSpec, workDir string, par int, perChild int, childTimeout time.Duration) BatchOutcome {
	out := BatchOutcome{Counters: map[string]int{}, PerScenario: map[string]map[string]int{}}
	if par <= 0 {
		par = 8
	}
	if perChild <= 0 {
		perChild = 8
	}
	_ = os.MkdirAll(workDir, 0o755)
	type batch struct {
		tag string
		scs []Scenario
	}
	var batches []batch
	for i := 0; i < len(scs); i += perChild {
		j := i + perChild
		if j > len(scs) {
			j = len(scs)
		}
		batches = append(batches, batch{fmt.Sprintf("b%04d", len(batches)), scs[i:j]})
	}
	var mu sync.Mutex
	sem := make(chan struct{}, par)
	var wg sync.WaitGroup
	for _, b := range batches {
		wg.Add(1)
		sem <- struct{}{}
		go func(b batch) {
			defer wg.Done()
			defer func() { <-sem }()
			o := runBatch(b.tag, b.scs, vs, workDir, childTimeout, 0)
			mu.Lock()
			out.Findings = append(out.Findings, o.Findings...)
			out.Infra = append(out.Infra, o.Infra...)
			for k, v := range o.Counters {
				out.Counters[k] += v
			}
			for k, v := range o.PerScenario {
				out.PerScenario[k] = v
			}
			out.Traces += o.Traces
			out.Events += o.Events
			out.TLCStates += o.TLCStates
			if len(out.Samples) < 3 {
				out.Samples = append(out.Samples, o.Samples...)
			}
			mu.Unlock()
		}(b)
	}
	wg.Wait()
	sort.Slice(out.Findings, func(i, j int) bool { return out.Findings[i].Scenario.Name < out.Findings[j].Scenario.Name })
	return out
}

func runChild(tag string, scs []Scenario, workDir string, timeout time.Duration) (JobResult, string, error) {
	job := Job{Scenarios: scs, OutDir: workDir, Tag: tag}
	jb, _ := json.Marshal(job)
	jobPath := filepath.Join(workDir, tag+".job.json")
	_ = os.MkdirAll(workDir, 0o755)
	if err := os.WriteFile(jobPath, jb, 0o644); err != nil {
		return JobResult{}, "", fmt.Errorf("%w: %v", ErrHarness, err)
	}
	_ = os.Remove(filepath.Join(workDir, tag+".hang.json"))
	bin := Self()
	if ChildBinary != "" {
		bin = ChildBinary
	}
	cmd := exec.Command(bin, "child", jobPath)
	var sb strings.Builder
	cmd.Stdout = &sb
	cmd.Stderr = &sb
	if err := cmd.Start(); err != nil {
		return JobResult{}, "", fmt.Errorf("%w: %v", ErrHarness, err)
	}
	done := make(chan error, 1)
	go func() { done <- cmd.Wait() }()
	var werr error
	select {
	case werr = <-done:
	case <-time.After(timeout):
		_ = cmd.Process.Kill()
		werr = fmt.Errorf("child timed out after %v", timeout)
		<-done
	}
	var jr JobResult
	raw, rerr := os.ReadFile(filepath.Join(workDir, tag+".result.json"))
	if rerr == nil {
		_ = json.Unmarshal(raw, &jr)
	}
	return jr, sb.String(), werr
}

// runBatch runs one child and validates its traces. depth guards the recursion used for triage.
func runBatch(tag string, scs []Scenario, vs ValidateSpec, workDir string, timeout time.Duration, depth int) BatchOutcome {
	o := BatchOutcome{Counters: map[string]int{}, PerScenario: map[string]map[string]int{}}
	jr, childOut, werr := runChild(tag, scs, workDir, timeout)
	if werr != nil && (errors.Is(werr, ErrHarness) || strings.Contains(werr.Error(), "exit status 7")) {
		o.Infra = append(o.Infra, "child "+tag+": "+werr.Error()+" (exit status 7 = memory guard) "+Tail(childOut, 3))
		return o
	}
	if werr != nil {
		// A watchdog exit (3), a crash or a timeout of the child: find the scenario that was running.
		running := -1
		for i, r := range jr.Results {
			if r.Hang == "running" {
				running = i
			}
		}
		hang, _ := os.ReadFile(filepath.Join(workDir, tag+".hang.json"))
		what := "process died: " + werr.Error() + " " + Tail(childOut, 15)
		if len(hang) > 0 {
			what = "call did not return within the deadline: " + strings.TrimSpace(string(hang))
		}
		merge := func(x BatchOutcome) {
			o.Findings = append(o.Findings, x.Findings...)
			o.Infra = append(o.Infra, x.Infra...)
			for k, v := range x.Counters {
				o.Counters[k] += v
			}
			for k, v := range x.PerScenario {
				o.PerScenario[k] = v
			}
			o.Traces += x.Traces
			o.Events += x.Events
			o.TLCStates += x.TLCStates
			o.Samples = append(o.Samples, x.Samples...)
		}
		switch {
		case running < 0:
			o.Infra = append(o.Infra, fmt.Sprintf("child %s: %v: %s", tag, werr, Tail(childOut, 10)))
		case len(scs) > 1 && depth < 3:
			// isolate: the culprit alone (second execution = confirmation), the others without it
			rest := append(append([]Scenario{}, scs[:running]...), scs[running+1:]...)
			merge(runBatch(tag+"c", []Scenario{scs[running]}, vs, workDir, timeout, depth+1))
			merge(runBatch(tag+"r", rest, vs, workDir, timeout, depth+1))
		case depth > 0:
			// failed inside its batch and again on its own: a reproducible hang / crash of the real code
			o.Findings = append(o.Findings, Finding{Scenario: scs[0], Spec: "harness", Detail: what + " (twice)"})
		default:
			_, out2, werr2 := runChild(tag+"x", scs, workDir, timeout)
			if werr2 != nil && !errors.Is(werr2, ErrHarness) {
				o.Findings = append(o.Findings, Finding{Scenario: scs[0], Spec: "harness", Detail: what + " (twice) " + Tail(out2, 5)})
			} else {
				o.Infra = append(o.Infra, fmt.Sprintf("child %s failed once (%v) but not on re-run: %s", tag, werr, Tail(childOut, 5)))
			}
		}
		return o
	}
	byName := map[string]Scenario{}
	for _, sc := range scs {
		byName[sc.Name] = sc
	}
	for i, r := range jr.Results {
		if i == 0 && len(r.Sample) > 0 {
			o.Samples = append(o.Samples, map[string]any{"scenario": byName[r.Name], "first_events": r.Sample})
		}
		for k, v := range r.Counters {
			o.Counters[k] += v
		}
		o.PerScenario[r.Name] = r.Counters
		if r.Panic != "" {
			o.Findings = append(o.Findings, Finding{Scenario: byName[r.Name], Spec: "harness", Detail: "panic: " + firstLines(r.Panic, 40)})
		}
		for _, f := range r.Failures {
			o.Findings = append(o.Findings, Finding{Scenario: byName[r.Name], Spec: "harness", Detail: f})
		}
	}
	// validate judges the recorded executions. A rejection is a statement about what the real code DID
	// (the trace), so it is reproduced by re-validating the rejected scenario's own lines in isolation
	// (deterministic) rather than by re-executing the scenario (hash-map allocation order and goroutine
	// schedules differ between executions). The remaining scenarios' lines are then validated again.
	validate := func(module, file string, from func(ScenarioResult) (int, int)) {
		lines, err := readLines(file)
		if err != nil {
			o.Infra = append(o.Infra, module+": "+err.Error())
			return
		}
		type seg struct {
			name string
			a, b int // 1-based inclusive line range in `file`
		}
		var segs []seg
		for _, sr := range jr.Results {
			a, b := from(sr)
			if b >= a {
				segs = append(segs, seg{sr.Name, a, b})
			}
		}
		cur := file
		for round := 0; len(segs) > 0 && round < 12; round++ {
			if round > 0 {
				cur = filepath.Join(workDir, fmt.Sprintf("%s.%s.r%d.ndjson", tag, module, round))
				var buf []string
				for _, sg := range segs {
					buf = append(buf, lines[sg.a-1:sg.b]...)
				}
				if err := os.WriteFile(cur, []byte(strings.Join(buf, "")), 0o644); err != nil {
					o.Infra = append(o.Infra, err.Error())
					return
				}
			}
			r, err := RunTLC(TLCJob{Module: module, Config: module + ".cfg", Files: map[string]string{"trace.ndjson": cur}, Timeout: 15 * time.Minute, HeapMB: 3000})
			if err != nil {
				o.Infra = append(o.Infra, module+": "+err.Error())
				return
			}
			o.TLCStates += r.Distinct
			if r.OK {
				for _, sg := range segs {
					o.Events += int64(sg.b - sg.a + 1)
				}
				return
			}
			if r.Rejected == 0 {
				o.Infra = append(o.Infra, module+" did not finish: "+Tail(r.Output, 12))
				return
			}
			// which scenario holds the rejected line (positions are relative to the concatenation of segs)
			pos, hit := 0, -1
			for i, sg := range segs {
				n := sg.b - sg.a + 1
				if r.Rejected > pos && r.Rejected <= pos+n {
					hit = i
					break
				}
				pos += n
				o.Events += int64(n)
			}
			if round == 0 {
				// in the original file positions are absolute
				hit = -1
				for i, sg := range segs {
					if r.Rejected >= sg.a && r.Rejected <= sg.b {
						hit = i
					}
				}
			}
			if hit < 0 {
				o.Infra = append(o.Infra, fmt.Sprintf("%s rejected line %d outside any scenario: %s", module, r.Rejected, r.Mismatch))
				return
			}
			sg := segs[hit]
			// isolate: the rejected scenario's own lines, kept as the replay artefact
			td := filepath.Join(VerifRoot, "out", "traces")
			_ = os.MkdirAll(td, 0o755)
			keep := filepath.Join(td, sg.name+"."+module+".ndjson")
			_ = os.WriteFile(keep, []byte(strings.Join(lines[sg.a-1:sg.b], "")), 0o644)
			r1, err := RunTLC(TLCJob{Module: module, Config: module + ".cfg", Files: map[string]string{"trace.ndjson": keep}, Timeout: 15 * time.Minute, HeapMB: 3000})
			if err != nil || (!r1.OK && r1.Rejected == 0) {
				o.Infra = append(o.Infra, fmt.Sprintf("%s: isolated re-validation of %s failed: %v %s", module, sg.name, err, Tail(r1.Output, 8)))
			} else if r1.OK {
				o.Infra = append(o.Infra, fmt.Sprintf("%s rejected scenario %s inside its batch (line %d) but accepts its lines in isolation: %s", module, sg.name, r.Rejected, r.Mismatch))
			} else {
				d := r1.Mismatch
				if d == "" {
					d = r1.Violated + " " + Tail(r1.Output, 8)
				}
				o.Findings = append(o.Findings, Finding{Scenario: byName[sg.name], Spec: module, Detail: d, Line: r1.Rejected, TraceFile: keep})
			}
			segs = append(segs[:hit:hit], segs[hit+1:]...)
		}
	}
	if vs.KV {
		validate("TraceKV", jr.KVFile, func(r ScenarioResult) (int, int) { return r.KVFrom, r.KVTo })
	}
	if vs.Bolt {
		validate("TraceBolt", jr.BoltFile, func(r ScenarioResult) (int, int) { return r.BoltFrom, r.BoltTo })
	}
	o.Traces += len(jr.Results)
	return o
}

func firstLines(s string, n int) string {
	l := strings.Split(s, "\n")
	if len(l) > n {
		l = l[:n]
	}
	return strings.Join(l, " | ")
}

func readLines(path string) ([]string, error) {
	raw, err := os.ReadFile(path)
	if err != nil {
		return nil, err
	}
	parts := strings.SplitAfter(string(raw), "\n")
	if len(parts) > 0 && parts[len(parts)-1] == "" {
		parts = parts[:len(parts)-1]
	}
	return parts, nil
}
