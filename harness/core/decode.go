package core

import (
	"bytes"
	"encoding/binary"
	"fmt"
	"os"
	"sort"
)

// An independent reader of the published bbolt version-2 file layout. It shares no code
// with /repo: it is the observation function for page sets (C06, C07, C10, C13, C19, C20)
// and the Go twin of spec/Format.tla (C11, C12), against which it is cross-validated.

const (
	pageHeaderSize = 16
	metaSize       = 64
	elemSize       = 16
	flagBranch     = 0x01
	flagLeaf       = 0x02
	flagMeta       = 0x04
	flagFreelist   = 0x10
	bucketLeafFlag = 0x01
	magic          = 0xED0CDAED
	noFreelist     = ^uint64(0)
)

type MetaInfo struct {
	Valid    bool   `json:"valid"`
	Err      string `json:"err,omitempty"`
	Magic    uint32 `json:"-"`
	Version  uint32 `json:"version"`
	PageSize uint32 `json:"pageSize"`
	Flags    uint32 `json:"flags"`
	Root     uint64 `json:"root"`
	Seq      uint64 `json:"seq"`
	Freelist int64  `json:"freelist"` // -1 = no freelist page
	Hwm      uint64 `json:"hwm"`
	Txid     uint64 `json:"txid"`
	Checksum uint64 `json:"-"`
	PgID     uint64 `json:"pgid"`
	PgFlags  uint16 `json:"pgflags"`
}

// DBucket is the decoded logical content of a bucket (raw bytes).
type DBucket struct {
	Idx      int  // index among the buckets of the file (0 = the root bucket)
	ElemSize int  // sum over its leaf elements of (element header + key + value)
	Nested   bool // holds at least one nested bucket
	RootLeaf bool // its root page is a leaf (or it is inline)
	Seq      uint64
	Inline   bool
	Keys     [][]byte
	Vals     [][]byte   // nil for nested buckets
	Subs     []*DBucket // non-nil for nested buckets
}

type Decoded struct {
	PageSize int         `json:"pageSize"`
	FileLen  int64       `json:"fileLen"`
	Meta     [2]MetaInfo `json:"meta"`
	Active   int         `json:"active"` // index of the meta Open must use; -1 if none
	Hwm      uint64      `json:"hwm"`
	Txid     uint64      `json:"txid"`

	Reach    map[uint64]int    `json:"-"` // tree page (incl. overflow) -> number of references
	FLPages  []uint64          `json:"fl"`
	FreeIDs  []uint64          `json:"free"` // as listed (duplicates kept)
	Types    map[uint64]string `json:"-"`
	Problems []string          `json:"problems"`
	Root     *DBucket          `json:"-"`

	NBranch, NLeaf, NOverflow, NInline, MaxDepth int

	Pages   []PageShape   `json:"-"` // one record per reachable tree page (first reference)
	Buckets []BucketShape `json:"-"`
}

// PageShape / BucketShape are the structural facts BTree.tla's ShapeOK is evaluated on.
type PageShape struct {
	ID     uint64 `json:"id"`
	Kind   string `json:"kind"` // leaf | branch
	Count  int    `json:"count"`
	Used   int    `json:"used"` // header + element headers + keys + values
	Cap    int    `json:"cap"`  // (overflow + 1) * pageSize
	Depth  int    `json:"depth"`
	Bucket int    `json:"bucket"`
	Root   bool   `json:"root"`
}
type BucketShape struct {
	ID       int  `json:"id"`
	Inline   bool `json:"inline"`
	Size     int  `json:"size"`   // inline page size the bucket has / would have (header + elements + keys + values)
	Nested   bool `json:"nested"` // holds at least one nested bucket
	RootLeaf bool `json:"rootLeaf"`
	Keys     int  `json:"keys"`
	TopLevel bool `json:"topLevel"`
	Parent   int  `json:"parent"` // id of the enclosing bucket, 0 = the root bucket
}

func fnv64a(b []byte) uint64 {
	h := uint64(0xcbf29ce484222325)
	for _, c := range b {
		h ^= uint64(c)
		h *= 0x100000001b3
	}
	return h
}

// DecodeMeta decodes and validates the meta structure of the page at off.
func DecodeMeta(data []byte, off int) MetaInfo {
	var m MetaInfo
	if off+pageHeaderSize+metaSize > len(data) {
		m.Err = "short"
		return m
	}
	p := data[off:]
	m.PgID = binary.LittleEndian.Uint64(p[0:])
	m.PgFlags = binary.LittleEndian.Uint16(p[8:])
	b := p[pageHeaderSize:]
	m.Magic = binary.LittleEndian.Uint32(b[0:])
	m.Version = binary.LittleEndian.Uint32(b[4:])
	m.PageSize = binary.LittleEndian.Uint32(b[8:])
	m.Flags = binary.LittleEndian.Uint32(b[12:])
	m.Root = binary.LittleEndian.Uint64(b[16:])
	m.Seq = binary.LittleEndian.Uint64(b[24:])
	fl := binary.LittleEndian.Uint64(b[32:])
	if fl == noFreelist {
		m.Freelist = -1
	} else {
		m.Freelist = int64(fl)
	}
	m.Hwm = binary.LittleEndian.Uint64(b[40:])
	m.Txid = binary.LittleEndian.Uint64(b[48:])
	m.Checksum = binary.LittleEndian.Uint64(b[56:])
	switch {
	case m.Magic != magic:
		m.Err = "magic"
	case m.Version != 2:
		m.Err = "version"
	case m.Checksum != fnv64a(b[:56]):
		m.Err = "checksum"
	default:
		m.Valid = true
	}
	return m
}

// DetectPageSize mirrors the documented rule: meta 0 at offset 0 states the page size; if it
// is damaged, meta 1 is searched at every power of two from 1024.
func DetectPageSize(data []byte) (int, bool) {
	if m := DecodeMeta(data, 0); m.Valid {
		return int(m.PageSize), true
	}
	for i := 0; i <= 14; i++ {
		pos := 1024 << uint(i)
		if pos+pageHeaderSize+metaSize > len(data) {
			break
		}
		if m := DecodeMeta(data, pos); m.Valid {
			return int(m.PageSize), true
		}
	}
	return 0, false
}

type decoder struct {
	d        *Decoded
	data     []byte
	ps       int
	nbuckets int
}

func (dc *decoder) problem(f string, a ...any) {
	if len(dc.d.Problems) < 50 {
		dc.d.Problems = append(dc.d.Problems, fmt.Sprintf(f, a...))
	}
}

type pageHdr struct {
	id       uint64
	flags    uint16
	count    int
	overflow uint32
}

func hdrAt(b []byte) pageHdr {
	return pageHdr{binary.LittleEndian.Uint64(b[0:]), binary.LittleEndian.Uint16(b[8:]), int(binary.LittleEndian.Uint16(b[10:])), binary.LittleEndian.Uint32(b[12:])}
}

// DecodeFile reads and decodes a database file.
func DecodeFile(path string) (*Decoded, error) {
	data, err := os.ReadFile(path)
	if err != nil {
		return nil, err
	}
	return DecodeBytes(data), nil
}

// DecodeBytes decodes a complete database image.
func DecodeBytes(data []byte) *Decoded {
	d := &Decoded{FileLen: int64(len(data)), Active: -1, Reach: map[uint64]int{}, Types: map[uint64]string{}}
	ps, ok := DetectPageSize(data)
	if !ok {
		d.Problems = append(d.Problems, "no valid meta page found")
		return d
	}
	d.PageSize = ps
	d.Meta[0] = DecodeMeta(data, 0)
	d.Meta[1] = DecodeMeta(data, ps)
	for i := 0; i < 2; i++ {
		if d.Meta[i].Valid && int(d.Meta[i].PageSize) != ps {
			d.Meta[i].Valid = false
			d.Meta[i].Err = "pagesize"
		}
	}
	switch {
	case d.Meta[0].Valid && d.Meta[1].Valid:
		if d.Meta[1].Txid > d.Meta[0].Txid {
			d.Active = 1
		} else {
			d.Active = 0
		}
	case d.Meta[0].Valid:
		d.Active = 0
	case d.Meta[1].Valid:
		d.Active = 1
	default:
		d.Problems = append(d.Problems, "both meta pages invalid")
		return d
	}
	m := d.Meta[d.Active]
	d.Hwm, d.Txid = m.Hwm, m.Txid
	dc := &decoder{d: d, data: data, ps: ps}
	for i := 0; i < 2; i++ {
		if i*ps+pageHeaderSize > len(data) {
			continue
		}
		h := hdrAt(data[i*ps:])
		if d.Meta[i].Valid && (h.flags != flagMeta || h.id != uint64(i)) {
			dc.problem("meta page %d: page header id=%d flags=%#x", i, h.id, h.flags)
		}
	}
	if uint64(len(data)) < d.Hwm*uint64(ps) {
		dc.problem("file length %d below high-water mark %d pages", len(data), d.Hwm)
	}
	// freelist page
	if m.Freelist >= 0 {
		dc.readFreelist(uint64(m.Freelist))
	}
	// bucket tree
	d.Root = &DBucket{Seq: m.Seq}
	if m.Root < 2 || m.Root >= d.Hwm {
		dc.problem("root bucket page %d out of range", m.Root)
	} else {
		dc.walkTree(m.Root, d.Root, nil, nil, 1, 1)
		dc.checkOrder(d.Root, "root")
	}
	dc.account()
	var collect func(b *DBucket, top bool, parent int)
	collect = func(b *DBucket, top bool, parent int) {
		if b.Idx != 0 {
			d.Buckets = append(d.Buckets, BucketShape{ID: b.Idx, Inline: b.Inline, Size: pageHeaderSize + b.ElemSize, Nested: b.Nested, RootLeaf: b.RootLeaf, Keys: len(b.Keys), TopLevel: top, Parent: parent})
		}
		for _, s := range b.Subs {
			if s != nil {
				collect(s, b.Idx == 0, b.Idx)
			}
		}
	}
	if d.Root != nil {
		collect(d.Root, false, 0)
	}
	return d
}

func (dc *decoder) pageBytes(id uint64) ([]byte, pageHdr, bool) {
	off := id * uint64(dc.ps)
	if id >= dc.d.Hwm || off+pageHeaderSize > uint64(len(dc.data)) {
		dc.problem("page %d beyond high-water mark / file", id)
		return nil, pageHdr{}, false
	}
	h := hdrAt(dc.data[off:])
	end := off + (uint64(h.overflow)+1)*uint64(dc.ps)
	if end > uint64(len(dc.data)) || id+uint64(h.overflow) >= dc.d.Hwm {
		dc.problem("page %d overflow %d runs past high-water mark / file", id, h.overflow)
		return nil, h, false
	}
	if h.id != id {
		dc.problem("page %d: header says id %d", id, h.id)
	}
	return dc.data[off:end], h, true
}

func (dc *decoder) readFreelist(id uint64) {
	b, h, ok := dc.pageBytes(id)
	if !ok {
		return
	}
	for i := uint64(0); i <= uint64(h.overflow); i++ {
		dc.d.FLPages = append(dc.d.FLPages, id+i)
		dc.d.Types[id+i] = "freelist"
	}
	if h.flags != flagFreelist {
		dc.problem("freelist page %d has flags %#x", id, h.flags)
		return
	}
	n, idx := h.count, 0
	if n == 0xFFFF {
		if len(b) < pageHeaderSize+8 {
			dc.problem("freelist page %d too short", id)
			return
		}
		n = int(binary.LittleEndian.Uint64(b[pageHeaderSize:]))
		idx = 1
	}
	if pageHeaderSize+(idx+n)*8 > len(b) {
		dc.problem("freelist page %d: %d ids do not fit", id, n)
		return
	}
	prev := uint64(0)
	for i := 0; i < n; i++ {
		v := binary.LittleEndian.Uint64(b[pageHeaderSize+(idx+i)*8:])
		if i > 0 && v <= prev {
			dc.problem("freelist ids not strictly ascending at %d (%d after %d)", i, v, prev)
		}
		prev = v
		dc.d.FreeIDs = append(dc.d.FreeIDs, v)
	}
}

// walkTree decodes the page id (branch or leaf) into bucket b. lo is the separator key the
// parent branch holds for this page; hi the next separator (nil = unbounded).
func (dc *decoder) walkTree(id uint64, b *DBucket, lo, hi []byte, depth int, bdepth int) {
	if depth > dc.d.MaxDepth {
		dc.d.MaxDepth = depth
	}
	if depth > 64 {
		dc.problem("page %d: tree deeper than 64", id)
		return
	}
	pb, h, ok := dc.pageBytes(id)
	if !ok {
		return
	}
	first := dc.d.Reach[id] == 0
	for i := uint64(0); i <= uint64(h.overflow); i++ {
		dc.d.Reach[id+i]++
		if i > 0 {
			dc.d.Types[id+i] = "overflow"
		}
	}
	dc.d.NOverflow += int(h.overflow)
	if !first {
		return // second reference: reported by account(), do not decode twice
	}
	switch h.flags {
	case flagBranch:
		dc.d.Types[id] = "branch"
		dc.d.NBranch++
		if h.count == 0 {
			dc.problem("branch page %d is empty", id)
		}
		type be struct {
			key  []byte
			pgid uint64
		}
		elems := make([]be, 0, h.count)
		for i := 0; i < h.count; i++ {
			e := pageHeaderSize + i*elemSize
			if e+elemSize > len(pb) {
				dc.problem("branch page %d: element %d header outside page", id, i)
				return
			}
			pos := int(binary.LittleEndian.Uint32(pb[e:]))
			ks := int(binary.LittleEndian.Uint32(pb[e+4:]))
			pg := binary.LittleEndian.Uint64(pb[e+8:])
			if e+pos+ks > len(pb) || pos < 0 || ks < 0 {
				dc.problem("branch page %d: element %d key outside page", id, i)
				return
			}
			elems = append(elems, be{pb[e+pos : e+pos+ks], pg})
		}
		used := pageHeaderSize + len(elems)*elemSize
		for _, e := range elems {
			used += len(e.key)
		}
		dc.d.Pages = append(dc.d.Pages, PageShape{ID: id, Kind: "branch", Count: h.count, Used: used, Cap: (int(h.overflow) + 1) * dc.ps, Depth: bdepth, Bucket: b.Idx, Root: bdepth == 1})
		for i, e := range elems {
			if i > 0 && bytes.Compare(elems[i-1].key, e.key) >= 0 {
				dc.problem("branch page %d: keys out of order at element %d", id, i)
			}
			if i == 0 && lo != nil && bytes.Compare(e.key, lo) < 0 {
				dc.problem("branch page %d: first key below the parent's separator", id)
			}
			nhi := hi
			if i+1 < len(elems) {
				nhi = elems[i+1].key
			}
			if e.pgid < 2 {
				dc.problem("branch page %d: element %d points to page %d", id, i, e.pgid)
				continue
			}
			dc.walkTree(e.pgid, b, e.key, nhi, depth+1, bdepth+1)
		}
	case flagLeaf:
		dc.d.Types[id] = "leaf"
		dc.d.NLeaf++
		before := b.ElemSize
		if bdepth == 1 {
			b.RootLeaf = true
		}
		dc.leafElems(pb[:], h.count, b, lo, hi, fmt.Sprintf("leaf page %d", id), depth)
		dc.d.Pages = append(dc.d.Pages, PageShape{ID: id, Kind: "leaf", Count: h.count, Used: pageHeaderSize + (b.ElemSize - before), Cap: (int(h.overflow) + 1) * dc.ps, Depth: bdepth, Bucket: b.Idx, Root: bdepth == 1})
	default:
		dc.d.Types[id] = fmt.Sprintf("unknown<%02x>", h.flags)
		dc.problem("page %d reachable from the tree has flags %#x", id, h.flags)
	}
}

// leafElems decodes the elements of a leaf page image (pb starts at the page header).
func (dc *decoder) leafElems(pb []byte, count int, b *DBucket, lo, hi []byte, what string, depth int) {
	for i := 0; i < count; i++ {
		e := pageHeaderSize + i*elemSize
		if e+elemSize > len(pb) {
			dc.problem("%s: element %d header outside page", what, i)
			return
		}
		fl := binary.LittleEndian.Uint32(pb[e:])
		pos := int(binary.LittleEndian.Uint32(pb[e+4:]))
		ks := int(binary.LittleEndian.Uint32(pb[e+8:]))
		vs := int(binary.LittleEndian.Uint32(pb[e+12:]))
		if pos < 0 || ks < 0 || vs < 0 || e+pos+ks+vs > len(pb) {
			dc.problem("%s: element %d key/value outside page", what, i)
			return
		}
		k := pb[e+pos : e+pos+ks]
		v := pb[e+pos+ks : e+pos+ks+vs]
		if i == 0 && lo != nil && bytes.Compare(k, lo) < 0 {
			dc.problem("%s: first key below the parent's separator", what)
		}
		if hi != nil && bytes.Compare(k, hi) >= 0 {
			dc.problem("%s: key %d not below the next separator", what, i)
		}
		b.Keys = append(b.Keys, k)
		b.ElemSize += elemSize + ks + vs
		if fl&bucketLeafFlag != 0 {
			b.Nested = true
			dc.nbuckets++
			sub := &DBucket{Idx: dc.nbuckets}
			b.Vals = append(b.Vals, nil)
			b.Subs = append(b.Subs, sub)
			if len(v) < 16 {
				dc.problem("%s: bucket element %d value shorter than a bucket header", what, i)
				continue
			}
			root := binary.LittleEndian.Uint64(v[0:])
			sub.Seq = binary.LittleEndian.Uint64(v[8:])
			if root == 0 {
				sub.Inline = true
				sub.RootLeaf = true
				dc.d.NInline++
				ip := v[16:]
				if len(ip) < pageHeaderSize {
					dc.problem("%s: inline bucket %d without page header", what, i)
					continue
				}
				ih := hdrAt(ip)
				if ih.flags != flagLeaf {
					dc.problem("%s: inline bucket %d has flags %#x", what, i, ih.flags)
					continue
				}
				dc.leafElems(ip, ih.count, sub, nil, nil, what+" inline", depth+1)
			} else {
				if root < 2 || root >= dc.d.Hwm {
					dc.problem("%s: bucket element %d root page %d out of range", what, i, root)
					continue
				}
				dc.walkTree(root, sub, nil, nil, depth+1, 1)
			}
		} else {
			b.Vals = append(b.Vals, v)
			b.Subs = append(b.Subs, nil)
		}
	}
}

func (dc *decoder) checkOrder(b *DBucket, name string) {
	for i := 1; i < len(b.Keys); i++ {
		if bytes.Compare(b.Keys[i-1], b.Keys[i]) >= 0 {
			dc.problem("bucket %s: keys out of order at %d", name, i)
			break
		}
	}
	for i, s := range b.Subs {
		if s != nil {
			dc.checkOrder(s, fmt.Sprintf("%s/%x", name, b.Keys[i]))
		}
	}
}

// account applies the accounting predicate of C07 (Format.tla: Consistent).
func (dc *decoder) account() {
	d := dc.d
	free := map[uint64]int{}
	for _, id := range d.FreeIDs {
		free[id]++
		if id < 2 || id >= d.Hwm {
			dc.problem("free id %d out of range", id)
		}
	}
	fl := map[uint64]bool{}
	for _, id := range d.FLPages {
		fl[id] = true
	}
	hasFL := d.Meta[d.Active].Freelist >= 0
	for id := uint64(2); id < d.Hwm; id++ {
		r, f := d.Reach[id], free[id]
		switch {
		case r > 1:
			dc.problem("page %d referenced %d times", id, r)
		case f > 1:
			dc.problem("page %d freed %d times", id, f)
		}
		if r > 0 && f > 0 {
			dc.problem("page %d reachable and free", id)
		}
		if fl[id] && (r > 0 || f > 0) {
			dc.problem("freelist page %d also reachable or free", id)
		}
		if hasFL && r == 0 && f == 0 && !fl[id] {
			dc.problem("page %d unreachable and not free", id)
		}
	}
}

// Consistent reports whether the decoded file satisfies the accounting predicate.
func (d *Decoded) Consistent() bool { return d.Active >= 0 && len(d.Problems) == 0 }

// TreePages returns the reachable tree pages (sorted, each once).
func (d *Decoded) TreePages() []uint64 {
	r := make([]uint64, 0, len(d.Reach))
	for id := range d.Reach {
		r = append(r, id)
	}
	sort.Slice(r, func(i, j int) bool { return r[i] < r[j] })
	return r
}

// Multi returns the pages referenced more than once.
func (d *Decoded) Multi() []uint64 {
	r := []uint64{}
	for id, n := range d.Reach {
		if n > 1 {
			r = append(r, id)
		}
	}
	sort.Slice(r, func(i, j int) bool { return r[i] < r[j] })
	return r
}

// Unreachable returns the pages in 2..hwm-1 that are neither tree nor freelist pages.
func (d *Decoded) Unreachable() []uint64 {
	fl := map[uint64]bool{}
	for _, id := range d.FLPages {
		fl[id] = true
	}
	r := []uint64{}
	for id := uint64(2); id < d.Hwm; id++ {
		if d.Reach[id] == 0 && !fl[id] {
			r = append(r, id)
		}
	}
	return r
}

// Project maps the decoded content to the abstract dump format of the traces.
func (b *DBucket) Project(p Profile) map[string]any {
	ks := []int{}
	es := []any{}
	for i, k := range b.Keys {
		ks = append(ks, p.KeyID(k))
		if b.Subs[i] != nil {
			es = append(es, map[string]any{"t": "b", "b": b.Subs[i].Project(p)})
		} else {
			es = append(es, map[string]any{"t": "v", "v": p.ValID(b.Vals[i])})
		}
	}
	return map[string]any{"seq": b.Seq, "ks": ks, "es": es}
}

// DecodedEvent builds the `Decoded` trace event (page-level observation of the file).
func (d *Decoded) Event() Ev {
	fl := d.FLPages
	if fl == nil {
		fl = []uint64{}
	}
	free := d.FreeIDs
	if free == nil {
		free = []uint64{}
	}
	probs := d.Problems
	if probs == nil {
		probs = []string{}
	}
	flpg := int64(-1)
	if d.Active >= 0 {
		flpg = d.Meta[d.Active].Freelist
	}
	return Ev{"ev": "Decoded", "txid": d.Txid, "hwm": d.Hwm, "fileLen": d.FileLen, "ps": d.PageSize, "tree": d.TreePages(),
		"fl": fl, "free": free, "multi": d.Multi(), "problems": probs, "active": d.Active, "flpg": flpg,
		"m0": d.Meta[0], "m1": d.Meta[1]}
}
