package core

import (
	"fmt"
	"os"
	"path/filepath"
	"sync"
)

func init() {
	RegisterCmd("shape-stats", func(args []string) {
		dir, _ := os.MkdirTemp("", "verif-shape-")
		defer os.RemoveAll(dir)
		n := 300
		viol := map[string]int{}
		ex := map[string]string{}
		var mu sync.Mutex
		var wg sync.WaitGroup
		sem := make(chan struct{}, 8)
		pages, buckets := 0, 0
		for i := 0; i < n; i++ {
			wg.Add(1)
			sem <- struct{}{}
			go func(i int) {
				defer wg.Done()
				defer func() { <-sem }()
				ps := []int{1024, 4096, 1024, 16384}[i%4]
				o := Opts{PageSize: ps, AllocSize: 65536, FillPercent: []float64{0, 0.1, 0.5, 1.0}[(i/4)%4]}
				profs := []string{"small", "half", "quarter", "page", "mixed", "tiny", "bigkey"}
				prof := ProfileByName(ps, profs[i%len(profs)])
				g := GenCfg{Keys: 10 + (i*13)%200, Vals: 8, MaxDepth: 2 + i%3, Txs: 10 + i%20, OpsPerTx: 10 + (i*7)%60, PReopen: 0.1}
				if i%3 == 0 {
					g = GenCfg{Keys: 150 + (i*13)%400, Vals: 8, MaxDepth: 2, Txs: 12 + i%10, OpsPerTx: 80 + (i*7)%120, PReopen: 0.1, BigBucket: 400}
				}
				defer func() {
					if p := recover(); p != nil {
						fmt.Println("PANIC in file", i, p, "opts", o, prof.Name, g)
					}
				}()
				bf, err := BuildFile(filepath.Join(dir, fmt.Sprintf("s%d.db", i)), o, prof, int64(i)*7+3, g)
				if err != nil {
					return
				}
				d, err := DecodeFile(bf.Path)
				os.Remove(bf.Path)
				if err != nil {
					return
				}
				mu.Lock()
				defer mu.Unlock()
				pages += len(d.Pages)
				buckets += len(d.Buckets)
				note := func(k, e string) {
					viol[k]++
					if ex[k] == "" {
						ex[k] = e
					}
				}
				depth := map[int]int{}
				for _, p := range d.Pages {
					if p.Used > p.Cap {
						note("I1 used>cap", fmt.Sprint(p))
					}
					if p.Kind == "leaf" {
						if dd, ok := depth[p.Bucket]; ok && dd != p.Depth {
							note("I2 leaf depths differ", fmt.Sprint(p))
						}
						depth[p.Bucket] = p.Depth
						if !p.Root && p.Count < 1 {
							note("I4 empty non-root leaf", fmt.Sprint(p))
						}
						if p.Root && p.Count == 0 {
							note("info: empty root leaf", fmt.Sprint(p))
						}
					} else {
						viol["info: branch pages"]++
						if p.Depth > 1 {
							viol["info: non-root branch pages"]++
						}
						if p.Count < 2 {
							note("I3 branch count<2", fmt.Sprint(p))
						}
					}
					if p.Cap > ps && p.Count > 2 {
						note("info: overflow page with >2 elems", fmt.Sprint(p))
					}
				}
				for _, b := range d.Buckets {
					if b.Inline && (b.Nested || b.Size > ps/4) {
						note("I5 inline but not inlineable", fmt.Sprint(b, ps))
					}
					if !b.Inline && b.RootLeaf && !b.Nested && b.Size <= ps/4 {
						note("I6 paged but inlineable", fmt.Sprint(b, ps))
					}
				}
			}(i)
		}
		wg.Wait()
		fmt.Println("files", n, "pages", pages, "buckets", buckets)
		for k, v := range viol {
			fmt.Println(k, v, ex[k])
		}
	})
}
