package core

import (
	"errors"
	"fmt"
	"os"
	"sort"
	"time"

	bolt "go.etcd.io/bbolt"
	berrors "go.etcd.io/bbolt/errors"
)

// Opts are the database options a scenario may choose (C13: they never change content).
type Opts struct {
	PageSize        int     `json:"pageSize"`    // the page size of the file (given to Open when the file is created)
	AskPageSize     int     `json:"askPageSize"` // what a REOPEN passes as Options.PageSize (0 = the file's): must be ignored for an existing file
	Freelist        string  `json:"freelist"`    // array | hashmap
	NoFreelistSync  bool    `json:"noFreelistSync"`
	NoGrowSync      bool    `json:"noGrowSync"`
	InitialMmapSize int     `json:"initialMmapSize"`
	MaxSize         int     `json:"maxSize"`
	AllocSize       int     `json:"allocSize"`
	ReadOnly        bool    `json:"readOnly"`
	Mlock           bool    `json:"mlock"`
	PreLoadFreelist bool    `json:"preLoadFreelist"`
	StrictMode      bool    `json:"strictMode"`
	FillPercent     float64 `json:"fillPercent"`
	NoStatistics    bool    `json:"noStatistics"`
	MaxBatchSize    int     `json:"maxBatchSize"`
	MaxBatchDelayMs int     `json:"maxBatchDelayMs"`
}

func pageSizeOption(o Opts) int {
	if o.AskPageSize != 0 {
		return o.AskPageSize
	}
	return o.PageSize
}

func (o Opts) BoltOptions() *bolt.Options {
	bo := &bolt.Options{
		Timeout:         2 * time.Second,
		NoGrowSync:      o.NoGrowSync,
		NoFreelistSync:  o.NoFreelistSync,
		PreLoadFreelist: o.PreLoadFreelist,
		ReadOnly:        o.ReadOnly,
		InitialMmapSize: o.InitialMmapSize,
		PageSize:        pageSizeOption(o),
		Mlock:           o.Mlock,
		MaxSize:         o.MaxSize,
		NoStatistics:    o.NoStatistics,
	}
	if o.Freelist == "hashmap" {
		bo.FreelistType = bolt.FreelistMapType
	} else {
		bo.FreelistType = bolt.FreelistArrayType
	}
	return bo
}

// Step is one step of an API program (the vocabulary of the trace files and of MC_TxKV's hist).
type Step struct {
	Ev      string `json:"ev"`
	H       int    `json:"h,omitempty"`
	C       int    `json:"c,omitempty"`
	W       bool   `json:"w,omitempty"`
	Managed bool   `json:"managed,omitempty"`
	Op      string `json:"op,omitempty"`
	Path    []int  `json:"path,omitempty"`
	K       int    `json:"k,omitempty"`
	V       int    `json:"v,omitempty"`
	Dst     []int  `json:"dst,omitempty"`
	How     string `json:"how,omitempty"`
	Arg     int    `json:"arg,omitempty"`
	Opts    *Opts  `json:"opts,omitempty"`
	// expectations carried by TLC-generated programs (cross-check only)
	Res string `json:"res,omitempty"`
	Out *int   `json:"out,omitempty"`
}

type txh struct {
	tx      *bolt.Tx
	w       bool
	managed bool
	open    bool
	buckets map[string]*bolt.Bucket
	// managed transactions run inside db.Update / db.View on their own goroutine
	work chan func()
	fin  chan error
	ret  error // what the managed function returns / panics with
	how  string
}

// Session drives one database file.
type Session struct {
	Path    string
	Opts    Opts
	Prof    Profile
	T       *Tracer
	DB      *bolt.DB
	reopens int // number of reopenings so far (drives the page-size option of the next one)

	txs  map[int]*txh
	curs map[int]*curh

	DumpBudget  int  // > 0: maximum number of entries a dump may visit
	AutoObserve bool // decode the file / read the statistics after every write transaction
	obsN        int
	HangFile    string        // where a watchdog writes its report
	Deadline    time.Duration // per-step deadline
	Label       string
	stepNo      int
}

type curh struct {
	c *bolt.Cursor
	h int
}

var errFn = errors.New("verif: function error")

type panicVal struct{ s string }

func NewSession(path string, o Opts, prof Profile, t *Tracer) *Session {
	return &Session{Path: path, Opts: o, Prof: prof, T: t, txs: map[int]*txh{}, curs: map[int]*curh{}, Deadline: 60 * time.Second}
}

// guard runs fn under a watchdog: a step that does not return is a termination failure
// (C05 "every cursor call returns", C03/C08 "later transactions proceed without blocking").
func (s *Session) guard(what string, fn func()) {
	s.stepNo++
	if s.HangFile == "" {
		fn()
		return
	}
	label, no := s.Label, s.stepNo
	tm := time.AfterFunc(s.Deadline, func() {
		_ = os.WriteFile(s.HangFile, []byte(fmt.Sprintf("{\"hang\":true,\"label\":%q,\"step\":%d,\"what\":%q}\n", label, no, what)), 0o644)
		os.Exit(3)
	})
	fn()
	tm.Stop()
}

func ErrName(err error) string {
	switch {
	case err == nil:
		return "ok"
	case errors.Is(err, berrors.ErrTxClosed):
		return "ErrTxClosed"
	case errors.Is(err, berrors.ErrTxNotWritable):
		return "ErrTxNotWritable"
	case errors.Is(err, berrors.ErrBucketNameRequired):
		return "ErrBucketNameRequired"
	case errors.Is(err, berrors.ErrBucketExists):
		return "ErrBucketExists"
	case errors.Is(err, berrors.ErrBucketNotFound):
		return "ErrBucketNotFound"
	case errors.Is(err, berrors.ErrIncompatibleValue):
		return "ErrIncompatibleValue"
	case errors.Is(err, berrors.ErrKeyRequired):
		return "ErrKeyRequired"
	case errors.Is(err, berrors.ErrKeyTooLarge):
		return "ErrKeyTooLarge"
	case errors.Is(err, berrors.ErrValueTooLarge):
		return "ErrValueTooLarge"
	case errors.Is(err, berrors.ErrSameBuckets):
		return "ErrSameBuckets"
	case errors.Is(err, berrors.ErrDifferentDB):
		return "ErrDifferentDB"
	case errors.Is(err, berrors.ErrDatabaseReadOnly):
		return "ErrDatabaseReadOnly"
	case errors.Is(err, berrors.ErrMaxSizeReached):
		return "ErrMaxSizeReached"
	case errors.Is(err, berrors.ErrDatabaseNotOpen):
		return "ErrDatabaseNotOpen"
	case errors.Is(err, berrors.ErrTimeout):
		return "ErrTimeout"
	case errors.Is(err, ErrInjected):
		return "ErrInjected"
	case errors.Is(err, errFn):
		return "ErrFn"
	}
	return "Err:" + err.Error()
}

func ints(p []int) []int {
	if p == nil {
		return []int{}
	}
	return p
}

func pathKey(p []int) string { return fmt.Sprint(p) }

// Open opens (or creates) the database, logging a Reset (first open) or Reopen event first.
func (s *Session) Open(first bool) error {
	if first {
		s.T.Add(Ev{"ev": "Reset", "opts": s.Opts, "profile": s.Prof.Name, "label": s.Label})
	} else {
		s.T.Add(Ev{"ev": "Reopen", "opts": s.Opts})
	}
	var db *bolt.DB
	var err error
	s.guard("Open", func() { db, err = bolt.Open(s.Path, 0o600, s.Opts.BoltOptions()) })
	if err != nil {
		s.T.Add(Ev{"ev": "OpenFailed", "err": ErrName(err)})
		return err
	}
	if s.Opts.AllocSize > 0 {
		db.AllocSize = s.Opts.AllocSize
	}
	if s.Opts.MaxBatchSize != 0 {
		db.MaxBatchSize = s.Opts.MaxBatchSize
	}
	if s.Opts.MaxBatchDelayMs != 0 {
		db.MaxBatchDelay = time.Duration(s.Opts.MaxBatchDelayMs) * time.Millisecond
	}
	db.StrictMode = s.Opts.StrictMode
	s.DB = db
	s.T.OnYield = s.onYield
	if s.AutoObserve {
		s.Observe(true)
	}
	return nil
}

// onYield: the writer is about to remap, which blocks while any reader is open
// (db.go:456-458). Close the open readers early: EndRead is always enabled in TxKV.
func (s *Session) onYield(point string) {
	if point != "remap" {
		return
	}
	hs := []int{}
	for h, t := range s.txs {
		if t.open && !t.w {
			hs = append(hs, h)
		}
	}
	sort.Ints(hs)
	for _, h := range hs {
		s.endTx(h, "rollback", true)
	}
}

// CloseAll ends every open transaction (readers first) and closes the database.
func (s *Session) CloseAll() error {
	hs := []int{}
	for h, t := range s.txs {
		if t.open {
			hs = append(hs, h)
		}
	}
	sort.Ints(hs)
	for _, h := range hs {
		s.endTx(h, "rollback", true)
	}
	s.txs = map[int]*txh{}
	s.curs = map[int]*curh{}
	if s.DB == nil {
		return nil
	}
	var err error
	s.guard("Close", func() { err = s.DB.Close() })
	s.DB = nil
	return err
}

func (s *Session) Reopen(o *Opts) error {
	if err := s.CloseAll(); err != nil {
		return err
	}
	if o != nil {
		ps := s.Opts.PageSize
		s.Opts = *o
		s.Opts.PageSize = ps
	}
	// C13: the page size of an existing file comes from the file; every second reopen asks for another one
	s.reopens++
	s.Opts.AskPageSize = []int{0, 2 * s.Opts.PageSize, 0, 4 * s.Opts.PageSize}[s.reopens%4]
	return s.Open(false)
}

// ---------------------------------------------------------------- transactions

func (s *Session) begin(st Step) {
	h := st.H
	if old := s.txs[h]; old != nil && old.open {
		s.endTx(h, "rollback", true)
	}
	for c, ch := range s.curs {
		if ch.h == h {
			delete(s.curs, c)
		}
	}
	s.T.Add(Ev{"ev": "BeginCall", "h": h, "w": st.W})
	t := &txh{w: st.W, managed: st.Managed, buckets: map[string]*bolt.Bucket{}}
	var err error
	if !st.Managed {
		s.guard("Begin", func() { t.tx, err = s.DB.Begin(st.W) })
	} else {
		t.work = make(chan func())
		t.fin = make(chan error, 1)
		started := make(chan error, 1)
		body := func(tx *bolt.Tx) error {
			t.tx = tx
			started <- nil
			for f := range t.work {
				f()
			}
			if t.how == "panic" {
				panic(panicVal{"verif panic"})
			}
			return t.ret
		}
		go func() {
			var r error
			func() {
				defer func() {
					if p := recover(); p != nil {
						if pv, ok := p.(panicVal); ok {
							r = fmt.Errorf("panic propagated: %s", pv.s)
						} else {
							r = fmt.Errorf("foreign panic: %v", p)
						}
					}
				}()
				if st.W {
					r = s.DB.Update(body)
				} else {
					r = s.DB.View(body)
				}
			}()
			select {
			case started <- r: // Begin itself failed
			default:
			}
			t.fin <- r
		}()
		s.guard("Begin(managed)", func() { err = <-started })
	}
	if err != nil {
		s.T.Add(Ev{"ev": "BeginFailed", "h": h, "w": st.W, "err": ErrName(err)})
		return
	}
	t.open = true
	s.txs[h] = t
	s.T.Add(Ev{"ev": "Begin", "h": h, "w": st.W, "txid": t.tx.ID(), "managed": st.Managed})
}

// run executes fn on the goroutine that owns the transaction.
func (s *Session) run(t *txh, what string, fn func()) {
	if t.managed && t.open {
		done := make(chan struct{})
		s.guard(what, func() {
			t.work <- func() { fn(); close(done) }
			<-done
		})
		return
	}
	s.guard(what, fn)
}

func (s *Session) endTx(h int, how string, forced bool) {
	t := s.txs[h]
	if t == nil || !t.open {
		return
	}
	var err error
	if !t.w {
		how = "rollback"
	}
	if t.managed {
		t.how = how
		if how == "commit" || !t.w {
			t.ret = nil
		} else {
			t.ret = errFn
		}
		s.guard("End(managed)", func() {
			close(t.work)
			err = <-t.fin
		})
		t.open = false
		ok := false
		switch how {
		case "commit":
			ok = err == nil
		case "panic":
			ok = err != nil && err.Error() == "panic propagated: verif panic"
		default:
			if t.w {
				ok = errors.Is(err, errFn)
			} else {
				ok = err == nil
			}
		}
		e := Ev{"ev": "End", "h": h, "how": how, "ok": ok, "err": ErrName(err), "managed": true, "forced": forced}
		if how != "commit" && !ok {
			e["ev"] = "EndBadResult" // Update/View did not hand back the function's error / panic
		}
		s.T.Add(e)
		return
	}
	if how == "commit" && t.w {
		s.guard("Commit", func() { err = t.tx.Commit() })
	} else {
		how = "rollback"
		s.guard("Rollback", func() { err = t.tx.Rollback() })
	}
	t.open = false
	s.T.Add(Ev{"ev": "End", "h": h, "how": how, "ok": err == nil, "err": ErrName(err), "managed": false, "forced": forced})
}

// bucket resolves the bucket at path for handle t (nil if some component is missing).
func (s *Session) bucket(t *txh, path []int) *bolt.Bucket {
	if len(path) == 0 {
		return nil
	}
	if !t.open {
		return t.buckets[pathKey(path)]
	}
	b := t.tx.Bucket(s.Prof.Key(path[0]))
	for _, k := range path[1:] {
		if b == nil {
			return nil
		}
		b = b.Bucket(s.Prof.Key(k))
	}
	if b != nil {
		if t.w && s.Opts.FillPercent > 0 {
			b.FillPercent = s.Opts.FillPercent
		}
		t.buckets[pathKey(path)] = b
	}
	return b
}

func (s *Session) op(st Step) {
	t := s.txs[st.H]
	if t == nil {
		return
	}
	if !t.open {
		switch st.Op {
		case "Get", "Sequence", "Lookup", "CountKeys", "CountBuckets":
			return // reads through a closed transaction are not part of the API contract
		}
	}
	root := len(st.Path) == 0
	var b *bolt.Bucket
	res, out := "ok", NilV
	skip := false
	s.run(t, "Op "+st.Op, func() {
		if !root {
			b = s.bucket(t, st.Path)
			if b == nil {
				if !t.open {
					skip = true // no handle was obtained while the transaction was open
					return
				}
				res = "NoBucket"
				return
			}
		}
		key := s.Prof.Key(st.K)
		switch st.Op {
		case "CreateBucket":
			var err error
			if root {
				_, err = t.tx.CreateBucket(key)
			} else {
				_, err = b.CreateBucket(key)
			}
			res = ErrName(err)
		case "CreateBucketIfNotExists":
			var err error
			if root {
				_, err = t.tx.CreateBucketIfNotExists(key)
			} else {
				_, err = b.CreateBucketIfNotExists(key)
			}
			res = ErrName(err)
		case "DeleteBucket":
			var err error
			if root {
				err = t.tx.DeleteBucket(key)
			} else {
				err = b.DeleteBucket(key)
			}
			res = ErrName(err)
		case "MoveBucket":
			var dst *bolt.Bucket
			if len(st.Dst) > 0 {
				dst = s.bucket(t, st.Dst)
				if dst == nil {
					if !t.open {
						skip = true
						return
					}
					res = "NoBucket"
					return
				}
			}
			var err error
			if root {
				err = t.tx.MoveBucket(key, nil, dst)
			} else {
				err = t.tx.MoveBucket(key, b, dst)
			}
			res = ErrName(err)
			if err == nil {
				// cached handles below the moved bucket are stale now
				t.buckets = map[string]*bolt.Bucket{}
			}
		case "Put":
			res = ErrName(b.Put(key, s.Prof.Val(st.V)))
		case "Get":
			v := b.Get(key)
			if v == nil {
				out = NilV
			} else {
				out = s.Prof.ValID(v)
			}
		case "Delete":
			res = ErrName(b.Delete(key))
		case "Sequence":
			out = int(b.Sequence())
		case "SetSequence":
			res = ErrName(b.SetSequence(uint64(st.V)))
		case "NextSequence":
			n, err := b.NextSequence()
			res = ErrName(err)
			if err == nil {
				out = int(n)
			}
		case "Lookup":
			var c *bolt.Bucket
			if root {
				c = t.tx.Bucket(key)
			} else {
				c = b.Bucket(key)
			}
			if c != nil {
				out = 1
			} else {
				out = 0
			}
		case "CountKeys":
			out = b.Inspect().KeyN
		case "CountBuckets":
			if root {
				out = len(t.tx.Inspect().Children)
			} else {
				out = len(b.Inspect().Children)
			}
		default:
			res = "UnknownOp"
		}
		if st.Op == "DeleteBucket" && res == "ok" {
			t.buckets = map[string]*bolt.Bucket{}
		}
	})
	if skip {
		return
	}
	s.T.Add(Ev{"ev": "Op", "h": st.H, "op": st.Op, "path": ints(st.Path), "k": st.K, "v": st.V, "dst": ints(st.Dst), "res": res, "out": out})
}

// ---------------------------------------------------------------- cursors

func (s *Session) newCur(st Step) {
	t := s.txs[st.H]
	if t == nil || !t.open {
		return
	}
	var c *bolt.Cursor
	s.run(t, "NewCur", func() {
		if len(st.Path) == 0 {
			c = t.tx.Cursor()
		} else if b := s.bucket(t, st.Path); b != nil {
			c = b.Cursor()
		}
	})
	if c == nil {
		return
	}
	s.curs[st.C] = &curh{c: c, h: st.H}
	s.T.Add(Ev{"ev": "NewCur", "c": st.C, "h": st.H, "path": ints(st.Path)})
}

func (s *Session) curOp(st Step) {
	ch := s.curs[st.C]
	if ch == nil {
		return
	}
	t := s.txs[ch.h]
	if t == nil || !t.open {
		return
	}
	var k, v []byte
	s.run(t, "Cursor."+st.Op, func() {
		switch st.Op {
		case "First":
			k, v = ch.c.First()
		case "Last":
			k, v = ch.c.Last()
		case "Next":
			k, v = ch.c.Next()
		case "Prev":
			k, v = ch.c.Prev()
		case "Seek":
			k, v = ch.c.Seek(s.Prof.Key(st.Arg))
		}
	})
	vid := 0
	if v != nil {
		vid = s.Prof.ValID(v)
	}
	s.T.Add(Ev{"ev": "Cur", "c": st.C, "op": st.Op, "arg": st.Arg, "k": s.Prof.KeyID(k), "v": vid, "vnil": v == nil})
}

func (s *Session) curDel(st Step) {
	ch := s.curs[st.C]
	if ch == nil {
		return
	}
	t := s.txs[ch.h]
	if t == nil || !t.open {
		return
	}
	var err error
	s.run(t, "Cursor.Delete", func() { err = ch.c.Delete() })
	s.T.Add(Ev{"ev": "CurDel", "c": st.C, "res": ErrName(err)})
}

// ---------------------------------------------------------------- observation

// DumpBucket projects a bucket onto the abstract model: {"seq", "ks", "es"}.
func (s *Session) dumpBucket(tx *bolt.Tx, b *bolt.Bucket) map[string]any {
	ks := []int{}
	es := []any{}
	var c *bolt.Cursor
	seq := uint64(0)
	if b == nil {
		c = tx.Cursor()
	} else {
		c = b.Cursor()
		seq = b.Sequence()
	}
	for k, v := c.First(); k != nil; k, v = c.Next() {
		if s.DumpBudget > 0 {
			// a corrupted (e.g. cyclic) tree must not be walked forever
			s.DumpBudget--
			if s.DumpBudget == 0 {
				panic("dump budget exceeded: the tree does not end (cyclic or corrupted)")
			}
		}
		var child *bolt.Bucket
		kk := append([]byte(nil), k...)
		if b == nil {
			child = tx.Bucket(kk)
		} else {
			child = b.Bucket(kk)
		}
		ks = append(ks, s.Prof.KeyID(kk))
		if child != nil {
			es = append(es, map[string]any{"t": "b", "b": s.dumpBucket(tx, child)})
		} else {
			es = append(es, map[string]any{"t": "v", "v": s.Prof.ValID(v)})
		}
	}
	return map[string]any{"seq": seq, "ks": ks, "es": es}
}

func (s *Session) dump(h int) {
	t := s.txs[h]
	if t == nil || !t.open {
		return
	}
	var d map[string]any
	s.run(t, "Dump", func() { d = s.dumpBucket(t.tx, nil) })
	s.T.Add(Ev{"ev": "Dump", "h": h, "root": d})
}

func (s *Session) forEach(st Step) {
	t := s.txs[st.H]
	if t == nil || !t.open {
		return
	}
	keys := []int{}
	rev := []int{}
	found := true
	s.run(t, "ForEach", func() {
		var c *bolt.Cursor
		if len(st.Path) == 0 {
			_ = t.tx.ForEach(func(name []byte, _ *bolt.Bucket) error { keys = append(keys, s.Prof.KeyID(name)); return nil })
			c = t.tx.Cursor()
		} else {
			b := s.bucket(t, st.Path)
			if b == nil {
				found = false
				return
			}
			_ = b.ForEach(func(k, _ []byte) error { keys = append(keys, s.Prof.KeyID(k)); return nil })
			c = b.Cursor()
		}
		for k, _ := c.Last(); k != nil; k, _ = c.Prev() {
			rev = append(rev, s.Prof.KeyID(k))
		}
	})
	if !found {
		return
	}
	s.T.Add(Ev{"ev": "ForEach", "h": st.H, "path": ints(st.Path), "keys": keys, "rev": rev})
}

// Exec executes one step.
func (s *Session) Exec(st Step) {
	switch st.Ev {
	case "Begin":
		s.begin(st)
	case "Op":
		s.op(st)
	case "End":
		wasW := false
		if t := s.txs[st.H]; t != nil && t.open && t.w {
			wasW = true
		}
		s.endTx(st.H, st.How, false)
		if wasW && s.AutoObserve {
			s.obsN++
			s.Observe(s.obsN%4 == 0)
		}
	case "Dump":
		s.dump(st.H)
	case "ForEach":
		s.forEach(st)
	case "NewCur":
		s.newCur(st)
	case "Cur":
		s.curOp(st)
	case "CurDel":
		s.curDel(st)
	case "Reopen":
		if err := s.Reopen(st.Opts); err != nil {
			panic(fmt.Sprintf("reopen failed: %v", err))
		}
	}
}

// OpenHandles lists open transaction handles.
func (s *Session) OpenHandles() (readers []int, writer int) {
	for h, t := range s.txs {
		if t.open {
			if t.w {
				writer = h
			} else {
				readers = append(readers, h)
			}
		}
	}
	sort.Ints(readers)
	return
}

func (s *Session) Tx(h int) *bolt.Tx {
	if t := s.txs[h]; t != nil && t.open {
		return t.tx
	}
	return nil
}

// Observe records the page-level observations of the file at a quiescent point: the
// independent decode (reachable pages, freelist page, file length), DB.Stats, and
// optionally Tx.Check.
func (s *Session) Observe(check bool) *Decoded {
	if s.DB == nil {
		return nil
	}
	if _, wr := s.OpenHandles(); wr != 0 {
		return nil
	}
	d, err := DecodeFile(s.Path)
	if err != nil {
		s.T.Add(Ev{"ev": "DecodeFailed", "err": err.Error()})
		return nil
	}
	s.T.Add(d.Event())
	if !s.Opts.NoStatistics {
		st := s.DB.Stats()
		ts := st.TxStats
		s.T.Add(Ev{"ev": "Stats", "freeN": st.FreePageN, "pendN": st.PendingPageN, "freeAlloc": st.FreeAlloc, "freelistInuse": st.FreelistInuse,
			"txN": st.TxN, "openTxN": st.OpenTxN, "pageCount": ts.GetPageCount(), "pageAlloc": ts.GetPageAlloc(), "write": ts.GetWrite(),
			"split": ts.GetSplit(), "spill": ts.GetSpill(), "rebalance": ts.GetRebalance(), "nodes": ts.GetNodeCount(), "deref": ts.GetNodeDeref(),
			"cursors": ts.GetCursorCount()})
	}
	if check {
		n := 0
		var first string
		s.guard("Check", func() {
			_ = s.DB.View(func(tx *bolt.Tx) error {
				for e := range tx.Check() {
					if n == 0 {
						first = e.Error()
					}
					n++
				}
				return nil
			})
		})
		s.T.Add(Ev{"ev": "Check", "errors": n, "first": first})
	}
	return d
}
