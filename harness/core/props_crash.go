package core

import (
	"crypto/sha1"
	"encoding/hex"
	"encoding/json"
	"fmt"
	"math/rand"
	"os"
	"path/filepath"
	"sort"
	"time"

	bolt "go.etcd.io/bbolt"
)

// Crash simulation (C01). A history is executed once against the real code with every I/O call
// recorded (offset + bytes). From that recording the harness reconstructs what the disk may hold
// if the machine dies at a given point: the durable image (everything up to the last completed
// sync) plus ANY subset, at 512-byte sector granularity, of the writes issued since, with the
// in-flight meta sector old / new / torn. Each image is opened with the real code; what it
// presents is logged as a CrashProbe event, and TLC (TraceBolt!TCrashProbe) decides from its own
// disk model which committed version the image must recover to.

const sector = 512

type diskModel struct {
	durable  []byte    // platter after the last completed sync
	cache    []byte    // page cache view (durable + unsynced effects)
	unsynced []IOEntry // writes / truncates since the last completed sync
}

func (d *diskModel) apply(e IOEntry) {
	switch e.Kind {
	case "write":
		data := e.Data
		if e.Failed {
			data = data[:e.Short]
		}
		end := int(e.Off) + len(data)
		if end > len(d.cache) {
			d.cache = append(d.cache, make([]byte, end-len(d.cache))...)
		}
		copy(d.cache[e.Off:], data)
		if len(data) > 0 {
			d.unsynced = append(d.unsynced, e)
		}
	case "truncate":
		if e.Failed {
			return
		}
		if int(e.Off) > len(d.cache) {
			d.cache = append(d.cache, make([]byte, int(e.Off)-len(d.cache))...)
		} else {
			d.cache = d.cache[:e.Off]
		}
		d.unsynced = append(d.unsynced, e)
	case "sync", "fsync":
		if e.Failed {
			return
		}
		d.durable = append(d.durable[:0], d.cache...)
		d.unsynced = nil
	}
}

// persistSpec says which sectors of which unsynced write are on the platter.
type persistSpec struct {
	full    []int         // I/O indices persisted completely
	partial map[int][]int // I/O index -> persisted sector numbers (a strict, non-empty subset)
	meta    string        // none | old | new | torn : fate of an unsynced meta-page write
	tornIdx int
}

func (d *diskModel) image(ps persistSpec, pageSize int) []byte {
	img := append([]byte(nil), d.durable...)
	grow := func(n int) {
		if n > len(img) {
			img = append(img, make([]byte, n-len(img))...)
		}
	}
	full := map[int]bool{}
	for _, i := range ps.full {
		full[i] = true
	}
	for _, e := range d.unsynced {
		switch e.Kind {
		case "truncate":
			if full[e.Idx] {
				grow(int(e.Off))
			}
		case "write":
			data := e.Data
			if e.Failed {
				data = data[:e.Short]
			}
			if full[e.Idx] {
				grow(int(e.Off) + len(data))
				copy(img[e.Off:], data)
				continue
			}
			if secs, ok := ps.partial[e.Idx]; ok {
				for _, s := range secs {
					a := s * sector
					b := a + sector
					if b > len(data) {
						b = len(data)
					}
					if a >= b {
						continue
					}
					grow(int(e.Off) + b)
					copy(img[int(e.Off)+a:], data[a:b])
				}
			}
			if ps.meta == "torn" && e.Idx == ps.tornIdx {
				// a sub-sector tear of the meta sector: the first 40 bytes are new, the rest old
				n := 40
				if n > len(data) {
					n = len(data)
				}
				grow(int(e.Off) + n)
				copy(img[e.Off:], data[:n])
			}
		}
	}
	return img
}

func hashDump(d map[string]any) string {
	b, _ := json.Marshal(d)
	h := sha1.Sum(b)
	return hex.EncodeToString(h[:8])
}

type crashObs struct {
	Opened         bool   `json:"opened"`
	Err            string `json:"err"`
	Txid           int    `json:"txid"`
	Content        string `json:"content"`
	CheckErrs      int    `json:"checkErrs"`
	DecodeProblems int    `json:"decodeProblems"`
	FollowUp       bool   `json:"followUp"`
	Detail         string `json:"detail,omitempty"`
}

// openImage opens a reconstructed image with the real code and reports what it presents.
func openImage(dir string, img []byte, prof Profile, pageSize int, n int) crashObs {
	ch := make(chan crashObs, 1)
	go func() { ch <- openImage1(dir, img, prof, pageSize, n) }()
	select {
	case o := <-ch:
		return o
	case <-time.After(30 * time.Second):
		// recovery / integrity check / follow-up transaction of this image does not terminate
		return crashObs{Err: "opening, checking or updating the crash image did not return within 30 s"}
	}
}

func openImage1(dir string, img []byte, prof Profile, pageSize int, n int) (obs crashObs) {
	path := filepath.Join(dir, fmt.Sprintf("img-%d", n))
	_ = os.Remove(path)
	if err := os.WriteFile(path, img, 0o600); err != nil {
		obs.Err = err.Error()
		return
	}
	defer os.Remove(path)
	defer func() {
		if p := recover(); p != nil {
			obs.Err = fmt.Sprintf("panic: %v", p)
			obs.Opened = false
		}
	}()
	o := &bolt.Options{Timeout: time.Second, PageSize: pageSize}
	if n%2 == 1 {
		o.FreelistType = bolt.FreelistMapType
	}
	// Open with the freelist-sync mode the image was written in: otherwise Open itself commits a
	// transaction (the freelist flush, db.go:311-323) and the observed txid is one higher.
	if d := DecodeBytes(img); d.Active >= 0 && d.Meta[d.Active].Freelist < 0 {
		o.NoFreelistSync = true
	}
	db, err := bolt.Open(path, 0o600, o)
	if err != nil {
		obs.Err = err.Error()
		return
	}
	defer db.Close()
	obs.Opened = true
	s := &Session{Prof: prof, DumpBudget: 2000000}
	_ = db.View(func(tx *bolt.Tx) error {
		obs.Txid = tx.ID()
		obs.Content = hashDump(s.dumpBucket(tx, nil))
		for e := range tx.Check() {
			if obs.CheckErrs == 0 {
				obs.Detail = e.Error()
			}
			obs.CheckErrs++
		}
		return nil
	})
	if d, err := DecodeFile(path); err == nil {
		obs.DecodeProblems = len(d.Problems)
		if len(d.Problems) > 0 && obs.Detail == "" {
			obs.Detail = d.Problems[0]
		}
	}
	// a follow-up write transaction, then the integrity check again
	err = db.Update(func(tx *bolt.Tx) error {
		// (ids outside every generator's key space: the follow-up must not collide with a nested bucket of the history)
		b, err := tx.CreateBucketIfNotExists(prof.Key(900))
		if err != nil {
			return err
		}
		for k := 901; k < 907; k++ {
			if err := b.Put(prof.Key(k), prof.Val(3)); err != nil {
				return err
			}
		}
		return nil
	})
	obs.FollowUp = err == nil
	if err == nil {
		_ = db.View(func(tx *bolt.Tx) error {
			for e := range tx.Check() {
				obs.FollowUp = false
				obs.Detail = "after follow-up: " + e.Error()
			}
			return nil
		})
	} else {
		obs.Detail = "follow-up: " + err.Error()
	}
	return
}

func init() {
	RegisterRunner("crash", runCrash)
}

func runCrash(sc Scenario, s *Session, rng *rand.Rand, res *ScenarioResult) {
	s.T.NoData = false
	versions := map[string]string{}
	recordVersion := func() {
		// the logical content of the committed version, through the real API
		if s.DB == nil {
			return
		}
		_ = s.DB.View(func(tx *bolt.Tx) error {
			versions[fmt.Sprint(tx.ID())] = hashDump(s.dumpBucket(tx, nil))
			return nil
		})
	}
	versions["1"] = hashDump(map[string]any{"seq": 0, "ks": []int{}, "es": []any{}})
	if err := s.Open(true); err != nil {
		panic(err)
	}
	recordVersion()
	initIOs := s.T.IOCount()
	const W = 1
	cfg := *sc.Gen
	for txn := 0; txn < cfg.Txs; txn++ {
		for r := 0; r < cfg.Readers; r++ {
			h := 2 + r
			if s.Tx(h) == nil && rng.Intn(3) == 0 {
				s.Exec(Step{Ev: "Begin", H: h, W: false})
			} else if s.Tx(h) != nil && rng.Intn(3) == 0 {
				s.Exec(Step{Ev: "End", H: h, How: "rollback"})
			}
		}
		s.Exec(Step{Ev: "Begin", H: W, W: true})
		n := 1 + rng.Intn(cfg.OpsPerTx)
		for i := 0; i < n; i++ {
			if st, ok := s.RandomOp(rng, cfg, W, true); ok {
				s.Exec(st)
			}
		}
		how := "commit"
		if rng.Intn(8) == 0 {
			how = "rollback"
		}
		s.Exec(Step{Ev: "End", H: W, How: how})
		recordVersion()
		if rng.Float64() < cfg.PReopen {
			var o *Opts
			if len(cfg.OptsChoice) > 0 {
				oc := cfg.OptsChoice[rng.Intn(len(cfg.OptsChoice))]
				o = &oc
			}
			s.Exec(Step{Ev: "Reopen", Opts: o})
			recordVersion()
		}
	}
	_ = s.CloseAll()
	Uninstall()

	// ---- reconstruct crash images from the recorded I/O
	shmBase := os.Getenv("VERIF_SHMDIR")
	if shmBase == "" {
		shmBase = "/dev/shm"
	}
	imgDir, err := os.MkdirTemp(shmBase, "verif-img-")
	if err != nil {
		imgDir, _ = os.MkdirTemp("", "verif-img-")
	}
	defer os.RemoveAll(imgDir)
	evs := s.T.Events
	ios := s.T.IOs
	ps := sc.Opts.PageSize
	probesAt := map[int][]Ev{} // event position -> probes to insert after it
	dm := &diskModel{}
	nimg := 0
	budget := sc.Params["images"]
	perPoint := sc.Params["perPoint"]
	for _, e := range ios {
		dm.apply(e)
		if e.Idx <= initIOs || e.Failed {
			continue // the initialisation of a brand-new file is excluded (README caveats)
		}
		if e.Kind != "write" && e.Kind != "truncate" {
			continue
		}
		if nimg >= budget {
			break
		}
		// the unsynced effects at this crash point
		var idxs []int
		metaIdx := 0
		for _, u := range dm.unsynced {
			idxs = append(idxs, u.Idx)
			if u.Kind == "write" && u.Off < int64(2*ps) {
				metaIdx = u.Idx
			}
		}
		sort.Ints(idxs)
		var specs []persistSpec
		add := func(full []int, partial map[int][]int, meta string) {
			if metaIdx == 0 {
				meta = "none"
			}
			specs = append(specs, persistSpec{full: full, partial: partial, meta: meta, tornIdx: metaIdx})
		}
		without := func(x int) []int {
			var r []int
			for _, i := range idxs {
				if i != x {
					r = append(r, i)
				}
			}
			return r
		}
		metaIn := func(full []int) string {
			for _, i := range full {
				if i == metaIdx {
					return "new"
				}
			}
			return "old"
		}
		add(nil, nil, "old")         // nothing reached the disk
		add(idxs, nil, metaIn(idxs)) // everything did
		for _, i := range idxs {     // each single write / all but one
			add([]int{i}, nil, metaIn([]int{i}))
			add(without(i), nil, metaIn(without(i)))
		}
		if metaIdx != 0 {
			add(without(metaIdx), nil, "torn") // all data + a torn meta sector
			add(nil, nil, "torn")
			add([]int{metaIdx}, nil, "new") // only the meta page (data dropped)
		}
		// the write just issued persisted partially (crash inside the call): sector prefixes / random sectors
		if e.Kind == "write" {
			nsec := (len(e.Data) + sector - 1) / sector
			if nsec > 1 {
				for _, k := range []int{1, nsec / 2, nsec - 1} {
					if k <= 0 || k >= nsec {
						continue
					}
					secs := make([]int, k)
					for i := range secs {
						secs[i] = i
					}
					m := "old"
					if e.Idx == metaIdx {
						m = "new" // sector 0 holds the whole meta structure
					}
					add(without(e.Idx), map[int][]int{e.Idx: secs}, m)
				}
			}
		}
		// random sector-level subsets
		for r := 0; r < perPoint; r++ {
			var full []int
			partial := map[int][]int{}
			m := "old"
			for _, u := range dm.unsynced {
				switch rng.Intn(3) {
				case 0:
					full = append(full, u.Idx)
					if u.Idx == metaIdx {
						m = "new"
					}
				case 1:
					if u.Kind != "write" {
						continue
					}
					nsec := (len(u.Data) + sector - 1) / sector
					var secs []int
					for sI := 0; sI < nsec; sI++ {
						if rng.Intn(2) == 0 {
							secs = append(secs, sI)
						}
					}
					if len(secs) > 0 && len(secs) < nsec {
						partial[u.Idx] = secs
						if u.Idx == metaIdx && secs[0] == 0 {
							m = "new"
						}
					} else if len(secs) == nsec {
						full = append(full, u.Idx)
						if u.Idx == metaIdx {
							m = "new"
						}
					}
				}
			}
			add(full, partial, m)
		}
		for _, sp := range specs {
			if nimg >= budget {
				break
			}
			img := dm.image(sp, ps)
			obs := openImage(imgDir, img, s.Prof, ps, nimg)
			nimg++
			partial := []int{}
			for i := range sp.partial {
				partial = append(partial, i)
			}
			sort.Ints(partial)
			full := sp.full
			if full == nil {
				full = []int{}
			}
			vs := map[string]string{}
			for k, v := range versions {
				vs[k] = v
			}
			pe := Ev{"ev": "CrashProbe", "at": e.Idx, "persisted": full, "partial": partial, "meta": sp.meta, "obs": obs, "versions": vs, "imgLen": len(img)}
			probesAt[e.EvPos] = append(probesAt[e.EvPos], pe)
			if !obs.Opened || obs.CheckErrs > 0 || !obs.FollowUp {
				res.Counters["crash_suspicious"]++
			}
			if sp.meta == "torn" {
				res.Counters["crash_torn_meta"]++
			}
			if len(sp.partial) > 0 {
				res.Counters["crash_partial"]++
			}
			if len(full) != 0 && len(full) != len(idxs) {
				res.Counters["crash_strict_subset"]++
			}
		}
	}
	res.Counters["crash_images"] = nimg
	// splice the probes into the event list
	var out []Ev
	for i, e := range evs {
		out = append(out, e)
		out = append(out, probesAt[i]...)
	}
	s.T.Events = out
}

func crashScenarios(prefix string, n int, seed int64, images, perPoint int) []Scenario {
	var scs []Scenario
	for i := 0; i < n; i++ {
		ps := []int{1024, 4096, 1024, 16384}[i%4]
		o := Opts{PageSize: ps, NoFreelistSync: i%4 == 1, NoGrowSync: (i/2)%3 == 1, AllocSize: []int{32768, 65536, 131072}[i%3]}
		if i%2 == 1 {
			o.Freelist = "hashmap"
		}
		if i%3 != 2 {
			o.InitialMmapSize = 1 << 25
		}
		prof := []string{"half", "page", "quarter", "small", "mixed"}[i%5]
		if ps == 16384 {
			prof = "small"
		}
		choices := []Opts{o, {NoFreelistSync: !o.NoFreelistSync, Freelist: "hashmap", NoGrowSync: o.NoGrowSync, AllocSize: o.AllocSize}, {NoFreelistSync: o.NoFreelistSync, NoGrowSync: !o.NoGrowSync, AllocSize: o.AllocSize}}
		g := GenCfg{Keys: 10 + 5*(i%4), Vals: 8, MaxDepth: 3, Readers: i % 3, Txs: 6 + i%5, OpsPerTx: 4 + i%9, PReopen: 0.15, OptsChoice: choices}
		scs = append(scs, Scenario{Name: fmt.Sprintf("%s-%d-%d", prefix, seed, i), Kind: "crash", Seed: seed*4099 + int64(i), Opts: o, Profile: prof,
			Gen: &g, Observe: true, Params: map[string]int{"images": images, "perPoint": perPoint}})
	}
	return scs
}

func CheckC01(c *Ctx) int {
	c.Assume = append(boltAssume(), "crash model: a 512-byte sector is persisted atomically or not at all (plus a sub-sector tear of the meta sector); a completed fdatasync / fsync persists everything issued before it, including the file length; unsynced writes may persist in any combination",
		"NoSync mode and a crash during the initialisation of a brand-new file are excluded (README caveats)")
	if c.Replay != "" {
		return replayScenario(c, ValidateSpec{Bolt: true}, nil)
	}
	c.ModelCheck("Bolt", "MC_Crash.cfg", 16, 30*time.Minute)
	c.ModelCheck("Bolt", "MC_Crash_nofl.cfg", 16, 30*time.Minute)
	if c.Thorough() {
		c.ModelCheck("Bolt", "MC_Crash_deep.cfg", 16, 90*time.Minute)
	}
	scs := crashScenarios("c01", c.Pick(28, 400), c.Seed, c.Pick(900, 4000), c.Pick(3, 8))
	o := RunScenarios(scs, ValidateSpec{Bolt: true}, filepath.Join(c.WorkDir, "runs"), 14, 2, time.Duration(c.Pick(6, 25))*time.Minute)
	c.Absorb(o)
	c.Cov["evaluations"] = o.Counters["crash_images"]
	c.Cov["distinct_nontrivial"] = o.Counters["crash_strict_subset"] + o.Counters["crash_partial"] + o.Counters["crash_torn_meta"]
	c.Cov["rule"] = "evaluations = reconstructed post-crash images opened with the real code (recovered txid, content hash, Tx.Check, independent decode, follow-up transaction) and judged by TLC against its disk model; non-trivial = images that differ from every committed file state (a strict subset of the unsynced writes, a partially persisted write, or a torn meta sector); distinct by (history, crash point, persisted set)"
	return c.Finish(nil)
}
