package core

import (
	"fmt"
	"math/rand"
	"os"
	"path/filepath"
	"strings"
	"time"
)

// C03: write transactions are serial, all-or-nothing, visible in commit order; the
// database-level entry points may be called from any number of goroutines.

func CheckC03(c *Ctx) int {
	c.Assume = []string{"TLC 1.8.0 evaluates the specification correctly", "hook events carry a sequence number taken under the protecting lock",
		"data-race freedom is a property of memory accesses, not of abstract state: it is observed with Go's race detector on the same concurrent drivers (auxiliary monitor, DESIGN.md §6)"}
	if c.Replay != "" {
		return replayScenario(c, ValidateSpec{KV: true, Bolt: true}, nil)
	}
	c.ModelCheck("MC_TxKV", "MC_TxKV.cfg", 16, 20*time.Minute)
	c.ModelCheck("Locks", "MC_Locks.cfg", 16, 20*time.Minute)
	if c.Thorough() {
		c.ModelCheck("Locks", "MC_Locks_deep.cfg", 16, 40*time.Minute)
	}
	// all outcomes of transaction bodies (commit, rollback, Update returning an error, Update panicking)
	scs := randomScenarios("c03r", c.Pick(40, 600), c.Seed, func(i int, rng *rand.Rand) GenCfg {
		return GenCfg{Keys: 10 + rng.Intn(10), Vals: 8, MaxDepth: 2, Readers: 1 + rng.Intn(2), Txs: 60 + rng.Intn(40), OpsPerTx: 1 + rng.Intn(6), PReopen: 0.04}
	}, true)
	scs = append(scs, concurrentScenarios("c03c", c.Pick(24, 300), c.Seed)...)
	o := RunScenarios(scs, ValidateSpec{KV: true, Bolt: true}, filepath.Join(c.WorkDir, "runs"), 14, 4, c.ChildTimeout())
	c.Absorb(o)
	// the same concurrent drivers under the race detector
	raceBin := filepath.Join(filepath.Dir(Self()), "verif-race")
	races := 0
	if _, err := os.Stat(raceBin); err == nil {
		ChildBinary = raceBin
		rs := concurrentScenarios("c03race", c.Pick(10, 120), c.Seed+17)
		wd := filepath.Join(c.WorkDir, "race")
		_ = os.MkdirAll(wd, 0o755)
		for i := 0; i < len(rs); i += 5 {
			j := i + 5
			if j > len(rs) {
				j = len(rs)
			}
			_, out, werr := runChild(fmt.Sprintf("race%03d", i), rs[i:j], wd, c.ChildTimeout())
			races += j - i
			if strings.Contains(out, "WARNING: DATA RACE") {
				rep := out[strings.Index(out, "WARNING: DATA RACE"):]
				if len(rep) > 6000 {
					rep = rep[:6000]
				}
				inRepo := strings.Count(rep, "/repo/") >= 2 && !strings.Contains(strings.SplitN(rep, "Previous", 2)[0], "verif/harness/core.(*Tracer)")
				if inRepo {
					c.Findings = append(c.Findings, Finding{Scenario: rs[i], Spec: "race-detector", Detail: "data race reported inside /repo: " + firstLines(rep, 40)})
				} else {
					c.Infra = append(c.Infra, "race detector report not attributable to /repo: "+firstLines(rep, 30))
				}
			} else if werr != nil {
				c.Infra = append(c.Infra, "race run failed: "+werr.Error()+" "+Tail(out, 10))
			}
		}
		ChildBinary = ""
	} else {
		c.Infra = append(c.Infra, "race-detector build of the harness is missing (./check builds it for C03)")
	}
	c.Cov["race_detector_runs"] = races
	c.Cov["evaluations"] = o.Counters["tx_end"]
	c.Cov["distinct_nontrivial"] = DistinctNontrivial(o.PerScenario, func(m map[string]int) bool { return m["tx_end"] > 10 && m["commit"] > 3 })
	c.Cov["rule"] = "evaluations = transactions ended (commit / rollback / fn error / panic) whose begin, operations, publication and end TLC validated against TxKV (single writer via the rwlock hook events, consecutive ids, invisibility of rolled-back effects, reader id = version read); non-trivial: > 10 transactions and > 3 commits in one history; concurrent histories use 1-3 writers and 2-6 readers on separate goroutines"
	return c.Finish(nil)
}

// ---------------------------------------------------------------- C13

func optionSchedules(rng *rand.Rand, ps int) []Opts {
	var cs []Opts
	for i := 0; i < 10; i++ {
		o := Opts{PageSize: ps}
		if rng.Intn(2) == 0 {
			o.Freelist = "hashmap"
		} else {
			o.Freelist = "array"
		}
		o.NoFreelistSync = rng.Intn(2) == 0
		o.NoGrowSync = rng.Intn(3) == 0
		o.InitialMmapSize = []int{0, 0, 1 << 16, 1 << 22, 1 << 26}[rng.Intn(5)]
		o.PreLoadFreelist = rng.Intn(2) == 0
		o.StrictMode = rng.Intn(4) == 0
		o.NoStatistics = rng.Intn(4) == 0
		o.Mlock = rng.Intn(5) == 0 && mlockWorks()
		o.AllocSize = []int{0, 32768, 1 << 20}[rng.Intn(3)]
		if rng.Intn(4) == 0 {
			o.ReadOnly = true
			o.PreLoadFreelist = rng.Intn(2) == 0
		}
		cs = append(cs, o)
	}
	return cs
}

var mlockOK *bool

func mlockWorks() bool {
	if mlockOK != nil {
		return *mlockOK
	}
	ok := os.Getenv("VERIF_MLOCK") == "1"
	mlockOK = &ok
	return ok
}

func CheckC13(c *Ctx) int {
	c.Assume = append(boltAssume(), "Mlock is only exercised when VERIF_MLOCK=1 (RLIMIT_MEMLOCK is an environment limit, not a property of the code)")
	if c.Replay != "" {
		return replayScenario(c, ValidateSpec{KV: true, Bolt: true}, nil)
	}
	c.ModelCheck("Bolt", "MC_Isolation.cfg", 16, 30*time.Minute)
	c.ModelCheck("Bolt", "MC_Isolation_nofl.cfg", 16, 30*time.Minute)
	c.ModelCheck("Bolt", "MC_Crash_nofl.cfg", 16, 30*time.Minute)
	// the same specification state must explain every history whatever the option schedule is
	n := c.Pick(60, 900)
	var scs []Scenario
	for i := 0; i < n; i++ {
		rng := rand.New(rand.NewSource(c.Seed*7907 + int64(i)))
		ps := []int{1024, 4096, 16384, 1024}[i%4]
		cs := optionSchedules(rng, ps)
		first := cs[0]
		first.ReadOnly = false
		prof := []string{"small", "half", "quarter", "page", "tiny"}[i%5]
		if ps == 16384 {
			prof = "small"
		}
		g := GenCfg{Keys: 10 + rng.Intn(30), Vals: 8, MaxDepth: 2 + rng.Intn(2), Readers: rng.Intn(2), Txs: 30 + rng.Intn(20), OpsPerTx: 3 + rng.Intn(10),
			PReopen: 0.3, OptsChoice: cs}
		scs = append(scs, Scenario{Name: fmt.Sprintf("c13-%d-%d", c.Seed, i), Kind: "random", Seed: c.Seed*31 + int64(i), Opts: first, Profile: prof, Gen: &g, Observe: true})
	}
	// failed commits right after a reopen that flipped the freelist-sync option (the file's state and the
	// session's option disagree until the first commit): rollback must still reload the committed list
	scs = append(scs, faultScenarios("c13f", c.Pick(6, 60), c.Seed+3, false)...)
	o := RunScenarios(scs, ValidateSpec{KV: true, Bolt: true}, filepath.Join(c.WorkDir, "runs"), 14, 5, c.ChildTimeout())
	c.Absorb(o)
	c.Cov["evaluations"] = o.Counters["reopen"]
	c.Cov["distinct_nontrivial"] = DistinctNontrivial(o.PerScenario, func(m map[string]int) bool { return m["reopen"] >= 2 && m["commit"] > 3 })
	c.Cov["rule"] = "evaluations = reopenings under a freshly drawn option record (backend, freelist-sync, grow-sync, initial map size, preload, strict mode, alloc size, read-only); every API result and dump is validated by TLC against the single TxKV state and every loaded / rebuilt free list against TraceBolt (LoadFreelistPage / LoadFreelistScan); non-trivial: >= 2 reopenings and > 3 commits"
	return c.Finish(nil)
}
