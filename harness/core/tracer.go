// Package core is the conformance harness that binds the TLA+ specifications in
// /verif/spec to the real bbolt code in /repo (built with the `verif` tag).
package core

import (
	"encoding/json"
	"errors"
	"fmt"
	"os"
	"sync"

	"go.etcd.io/bbolt/verifbridge"
)

// Ev is one trace event (one ndjson line).
type Ev map[string]any

// ErrInjected is the error returned by an I/O call the harness fails on purpose.
var ErrInjected = errors.New("verif: injected I/O error")

// IOEntry records one intercepted I/O call against the data file.
type IOEntry struct {
	Idx    int    // 1-based index among all I/O calls of the tracer
	Kind   string // write, sync, truncate, fsync, mmap
	Off    int64  // offset (write) or size (truncate, mmap)
	Data   []byte // copy of the bytes of a write
	Failed bool   // the harness failed this call
	Short  int    // bytes actually written by a failed write
	EvPos  int    // index in Events of the corresponding event
}

// Tracer implements verifbridge.Tracer.
type Tracer struct {
	mu     sync.Mutex
	seq    int
	Events []Ev
	IOs    []IOEntry
	Owner  any // when set, events of other owners are ignored

	FailAt    int  // fail the I/O call with this index (0 = none)
	FailShort int  // for a failed write: number of bytes still written
	FailHit   bool // the armed failure fired
	NoData    bool // do not keep copies of written bytes

	OnYield func(point string) // called (without the mutex) at yield points
	OnIO    func(e IOEntry)    // called (without the mutex) before each I/O call
}

var _ verifbridge.Tracer = (*Tracer)(nil)

func NewTracer() *Tracer { return &Tracer{} }

// Install makes t the process-wide tracer.
func (t *Tracer) Install() { verifbridge.SetTracer(t) }
func Uninstall()           { verifbridge.SetTracer(nil) }
func (t *Tracer) Reset() {
	t.mu.Lock()
	t.Events = nil
	t.IOs = nil
	t.seq = 0
	t.FailHit = false
	t.mu.Unlock()
}
func (t *Tracer) IOCount() int { t.mu.Lock(); defer t.mu.Unlock(); return len(t.IOs) }

func (t *Tracer) mine(owner any) bool {
	return owner == nil || t.Owner == nil || owner == t.Owner
}

// Add appends a driver event.
func (t *Tracer) Add(e Ev) {
	t.mu.Lock()
	t.seq++
	e["seq"] = t.seq
	t.Events = append(t.Events, e)
	t.mu.Unlock()
}

func (t *Tracer) Event(owner any, name string, fields map[string]any) {
	if !t.mine(owner) {
		return
	}
	e := Ev{"ev": name}
	for k, v := range fields {
		e[k] = v
	}
	t.Add(e)
}

func (t *Tracer) IO(owner any, kind string, off int64, data []byte) (int, error) {
	if !t.mine(owner) {
		return 0, nil
	}
	t.mu.Lock()
	idx := len(t.IOs) + 1
	ent := IOEntry{Idx: idx, Kind: kind, Off: off}
	if kind == "write" {
		if !t.NoData {
			ent.Data = append([]byte(nil), data...)
		} else {
			ent.Data = nil
		}
	}
	fail := t.FailAt == idx
	e := Ev{"ev": "IO", "kind": kind, "idx": idx, "off": off, "len": len(data), "fail": fail, "short": 0}
	if fail {
		t.FailHit = true
		ent.Failed = true
		if kind == "write" {
			s := t.FailShort
			if s > len(data) {
				s = len(data)
			}
			ent.Short = s
			e["short"] = s
		}
	}
	t.seq++
	e["seq"] = t.seq
	ent.EvPos = len(t.Events)
	t.Events = append(t.Events, e)
	t.IOs = append(t.IOs, ent)
	cb := t.OnIO
	t.mu.Unlock()
	if cb != nil {
		cb(ent)
	}
	if fail {
		return ent.Short, ErrInjected
	}
	return 0, nil
}

func (t *Tracer) Yield(owner any, point string) {
	if !t.mine(owner) {
		return
	}
	if cb := t.OnYield; cb != nil {
		cb(point)
	}
}

// Snapshot returns a copy of the event list.
func (t *Tracer) Snapshot() []Ev {
	t.mu.Lock()
	defer t.mu.Unlock()
	return append([]Ev(nil), t.Events...)
}

// WriteNDJSON writes the events accepted by keep (nil = all) as ndjson.
func WriteNDJSON(path string, evs []Ev, keep func(Ev) bool) (int, error) {
	f, err := os.Create(path)
	if err != nil {
		return 0, err
	}
	defer f.Close()
	n := 0
	for _, e := range evs {
		if keep != nil && !keep(e) {
			continue
		}
		b, err := json.Marshal(e)
		if err != nil {
			return n, fmt.Errorf("marshal %v: %w", e, err)
		}
		b = append(b, '\n')
		if _, err := f.Write(b); err != nil {
			return n, err
		}
		n++
	}
	return n, nil
}

var kvEvents = map[string]bool{"Reset": true, "BeginCall": true, "Begin": true, "Op": true, "NewCur": true, "Cur": true, "CurDel": true,
	"ForEach": true, "Dump": true, "End": true, "Backup": true, "Compact": true, "CLIView": true, "BStart": true, "Inv": true, "CallEnd": true, "Final": true, "EndBadResult": true, "Reopen": true, "BeginWrite": true, "EndWrite": true, "MetaWrite": true}

// KeepKV selects the events consumed by TraceKV.tla.
func KeepKV(e Ev) bool { return kvEvents[e["ev"].(string)] }

var boltEvents = map[string]bool{"Reset": true, "Reopen": true, "LoadFreelistPage": true, "LoadFreelistScan": true, "BeginRead": true,
	"EndRead": true, "BeginWrite": true, "Free": true, "Alloc": true, "AllocRefused": true, "MetaWrite": true, "IO": true,
	"CommitDone": true, "RollbackUser": true, "RollbackPhysical": true, "EndWrite": true, "Decoded": true, "Stats": true,
	"Check": true, "CrashProbe": true}

// KeepBolt selects the events consumed by TraceBolt.tla.
func KeepBolt(e Ev) bool { return boltEvents[e["ev"].(string)] }

// NormalizeBolt fills the fields TraceBolt.tla reads unconditionally.
func NormalizeBolt(evs []Ev) []Ev {
	out := make([]Ev, 0, len(evs))
	for _, e := range evs {
		if !KeepBolt(e) {
			continue
		}
		c := Ev{}
		for k, v := range e {
			c[k] = v
		}
		switch c["ev"] {
		case "BeginRead", "EndRead", "BeginWrite", "RollbackUser", "RollbackPhysical", "EndWrite", "LoadFreelistPage", "LoadFreelistScan":
			_, hasFree := c["free"]
			_, hasReaders := c["readers"]
			c["nofl"] = !hasFree && !hasReaders
			if !hasFree {
				c["free"], c["pend"], c["freeN"], c["pendN"] = []int{}, []int{}, 0, 0
			}
			if !hasReaders {
				c["readers"] = []int{}
			}
			_, mapped := c["datasz"]
			c["nomap"] = !mapped
		}
		out = append(out, c)
	}
	return out
}
