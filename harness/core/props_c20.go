package core

import (
	"fmt"
	"os"
	"path/filepath"
	"sync"
	"time"
)

// C20: repair commands restore exactly what they promise.

func CheckC20(c *Ctx) int {
	c.Assume = []string{"TLC evaluates the accounting predicate (Format.tla: Consistent) and the content rules on the observed outputs",
		"the page graph of each output comes from the harness' decoder (cross-validated against Format.tla by C12)", "the CLI is built from /repo by ./check"}
	dir := filepath.Join(c.WorkDir, "files")
	_ = os.MkdirAll(dir, 0o755)
	files := buildFiles(dir, c.Pick(24, 300), c.Seed+41, false)
	var evs []Ev
	var mu sync.Mutex
	var wg sync.WaitGroup
	sem := make(chan struct{}, 14)
	nontrivial := 0
	existing := 0
	for i, bf := range files {
		wg.Add(1)
		sem <- struct{}{}
		go func(i int, bf *BuiltFile) {
			defer wg.Done()
			defer func() { <-sem }()
			srcSHA := fileSHA(bf.Path)
			raw, _ := os.ReadFile(bf.Path)
			d0 := DecodeBytes(raw)
			if d0.Active < 0 {
				return
			}
			src := map[string]any{"txid": d0.Txid, "hasfl": d0.Meta[d0.Active].Freelist >= 0}
			run := func(kind string, in string, args ...string) (string, Ev) {
				out := filepath.Join(dir, fmt.Sprintf("s%d-%s.db", i, kind))
				os.Remove(out)
				o, code := CLI(2*time.Minute, append(args, in, "--output", out)...)
				e := Ev{"ev": "Surgery", "name": fmt.Sprintf("f%d-ps%d-%s", i, bf.Opts.PageSize, kind), "kind": kind, "exit": code, "cliOut": Tail(o, 2),
					"src": src, "versions": bf.Versions, "srcSame": fileSHA(bf.Path) == srcSHA, "m0fl": 0, "m1fl": 0}
				obs := openObs{}
				g := map[string]any{"hwm": 0, "reach": []int{}, "free": []int{}, "fl": []int{}, "hasfl": false, "badtype": 0, "disorder": 0}
				if r2, err := os.ReadFile(out); err == nil {
					d := DecodeBytes(r2)
					g = graphOf(d)
					e["m0fl"], e["m1fl"] = d.Meta[0].Freelist, d.Meta[1].Freelist
					// observe on a copy: opening read-write may commit (freelist flush) and must not disturb the next command's input
					cp := out + ".obs"
					_ = copyTo(out, cp)
					obs = ObserveOpenSub(cp, bf.Profile.Name, bf.Opts.PageSize, i%2 == 1)
					os.Remove(cp)
				}
				e["g"], e["out"] = g, obs
				return out, e
			}
			var local []Ev
			ab, e1 := run("abandon", bf.Path, "surgery", "freelist", "abandon")
			local = append(local, e1)
			if e1["exit"] == 0 {
				rb, e2 := run("rebuild", ab, "surgery", "freelist", "rebuild")
				// the source of the rebuild is the abandoned file
				e2["srcSame"] = true
				local = append(local, e2)
				os.Remove(rb)
			}
			os.Remove(ab)
			if d0.Txid >= 3 {
				rv, e3 := run("revert", bf.Path, "surgery", "revert-meta-page")
				local = append(local, e3)
				os.Remove(rv)
			}
			// an output path that already exists: as a hard link of the source ("inplace" - whatever the command
			// does, the source must stay byte-identical) and as a stale other database ("stale" - the command must
			// either refuse and leave it alone, or produce the source's content)
			cmds := [][]string{{"surgery", "freelist", "abandon"}, {"surgery", "freelist", "rebuild"}, {"surgery", "revert-meta-page"}}
			cmdv := cmds[i%3]
			if i%3 != 2 || d0.Txid >= 3 {
				expect := d0.Txid
				if i%3 == 2 {
					expect = d0.Txid - 1
				}
				link := filepath.Join(dir, fmt.Sprintf("s%d-link.db", i))
				os.Remove(link)
				if os.Link(bf.Path, link) == nil {
					o, code := CLI(2*time.Minute, append(append([]string{}, cmdv...), bf.Path, "--output", link)...)
					local = append(local, Ev{"ev": "Surgery", "name": fmt.Sprintf("f%d-ps%d-inplace-%s", i, bf.Opts.PageSize, cmdv[len(cmdv)-1]), "kind": "inplace", "exit": code, "cliOut": Tail(o, 2),
						"src": src, "versions": bf.Versions, "srcSame": fileSHA(bf.Path) == srcSHA, "m0fl": 0, "m1fl": 0, "g": map[string]any{}, "out": openObs{}, "staleSame": true, "expectTxid": expect})
					os.Remove(link)
					if fileSHA(bf.Path) != srcSHA {
						_ = os.WriteFile(bf.Path, raw, 0o600) // restore for whatever follows
					}
				}
				stale := filepath.Join(dir, fmt.Sprintf("s%d-stale.db", i))
				other := files[(i+1)%len(files)]
				if other != bf && copyTo(other.Path, stale) == nil {
					staleSHA := fileSHA(stale)
					o, code := CLI(2*time.Minute, append(append([]string{}, cmdv...), bf.Path, "--output", stale)...)
					cp := stale + ".obs"
					_ = copyTo(stale, cp)
					obs := ObserveOpenSub(cp, bf.Profile.Name, bf.Opts.PageSize, false)
					os.Remove(cp)
					local = append(local, Ev{"ev": "Surgery", "name": fmt.Sprintf("f%d-ps%d-stale-%s", i, bf.Opts.PageSize, cmdv[len(cmdv)-1]), "kind": "stale", "exit": code, "cliOut": Tail(o, 2),
						"src": src, "versions": bf.Versions, "srcSame": fileSHA(bf.Path) == srcSHA, "m0fl": 0, "m1fl": 0, "g": map[string]any{}, "out": obs, "staleSame": fileSHA(stale) == staleSHA, "expectTxid": expect})
					os.Remove(stale)
					existing++
				}
			}
			mu.Lock()
			evs = append(evs, local...)
			if len(d0.FreeIDs) > 0 || d0.Txid > 3 {
				nontrivial += len(local)
			}
			mu.Unlock()
		}(i, bf)
	}
	wg.Wait()
	c.evalFormat(evs, 8, "surgery")
	if len(evs) > 0 {
		c.AddSample(evs[0])
	}
	c.traces = len(evs)
	c.Cov["evaluations"] = len(evs)
	c.Cov["distinct_nontrivial"] = nontrivial
	c.Cov["runs_with_an_existing_output_path"] = existing
	c.Cov["rule"] = "evaluations = outputs of `surgery freelist abandon`, `surgery freelist rebuild` (of the abandoned file) and `surgery revert-meta-page` (file at rest directly after a commit) over generated histories, page sizes 1024 / 4096 / 16384, freelist persisted or not, plus runs whose --output already exists (a hard link of the source; a stale other database); content hash, txid, Tx.Check and the page graph of each output are judged by TLC; non-trivial = the source had a non-empty free list or more than 2 commits"
	return c.Finish(nil)
}
