package core

import (
	"encoding/binary"
	"errors"
	"fmt"
	"math/rand"
	"path/filepath"
	"sync"
	"time"

	bolt "go.etcd.io/bbolt"
)

// C16: DB.Batch applies each successful function exactly once.

var batchPatterns = []string{"ok", "fail1", "fail2", "failAll", "panic1", "panicAll"}

func batchOutcome(p string, k int) string {
	switch p {
	case "fail1":
		if k == 1 {
			return "err"
		}
	case "fail2":
		if k == 2 {
			return "err"
		}
	case "failAll":
		return "err"
	case "panic1":
		if k == 1 {
			return "panic"
		}
	case "panicAll":
		return "panic"
	}
	return "ok"
}

func init() {
	RegisterRunner("batch", func(sc Scenario, s *Session, rng *rand.Rand, res *ScenarioResult) {
		if err := s.Open(true); err != nil {
			panic(err)
		}
		db := s.DB
		T := s.T
		n := sc.Params["callers"]
		pats := make([]string, n)
		for i := range pats {
			if rng.Intn(100) < sc.Params["pOK"] {
				pats[i] = "ok"
			} else {
				pats[i] = batchPatterns[1+rng.Intn(len(batchPatterns)-1)]
			}
		}
		_ = db.Update(func(tx *bolt.Tx) error { _, err := tx.CreateBucket([]byte("cnt")); return err })
		T.Add(Ev{"ev": "BStart", "pats": pats, "maxBatchSize": db.MaxBatchSize, "delayMs": sc.Opts.MaxBatchDelayMs})
		var wg sync.WaitGroup
		key := func(c int) []byte { b := make([]byte, 4); binary.BigEndian.PutUint32(b, uint32(c)); return b }
		for c := 1; c <= n; c++ {
			wg.Add(1)
			go func(c int) {
				defer wg.Done()
				if d := sc.Params["stagger"]; d > 0 {
					time.Sleep(time.Duration(rand.New(rand.NewSource(sc.Seed+int64(c))).Intn(d)) * time.Microsecond)
				}
				k := 0
				result := "nil"
				func() {
					defer func() {
						if p := recover(); p != nil {
							result = "panic"
						}
					}()
					err := db.Batch(func(tx *bolt.Tx) error {
						k++
						o := batchOutcome(pats[c-1], k)
						// non-idempotent effect: read-modify-write of the caller's counter
						b := tx.Bucket([]byte("cnt"))
						cur := uint64(0)
						if v := b.Get(key(c)); v != nil {
							cur = binary.BigEndian.Uint64(v)
						}
						nv := make([]byte, 8)
						binary.BigEndian.PutUint64(nv, cur+1)
						if err := b.Put(key(c), nv); err != nil {
							return err
						}
						T.Add(Ev{"ev": "Inv", "c": c, "k": k, "outcome": o})
						switch o {
						case "err":
							return errFn
						case "panic":
							panic("verif batch panic")
						}
						return nil
					})
					if err != nil {
						result = "err"
						if err != errFn {
							result = "err:" + err.Error()
						}
					}
				}()
				T.Add(Ev{"ev": "CallEnd", "c": c, "res": result})
			}(c)
		}
		done := make(chan struct{})
		go func() { wg.Wait(); close(done) }()
		s.guard("batch callers", func() {
			select {
			case <-done:
			case <-time.After(60 * time.Second):
				panic("Batch callers did not all return (C16 / C03)")
			}
		})
		cnt := make([]int, n)
		_ = db.View(func(tx *bolt.Tx) error {
			b := tx.Bucket([]byte("cnt"))
			for c := 1; c <= n; c++ {
				if v := b.Get(key(c)); v != nil {
					cnt[c-1] = int(binary.BigEndian.Uint64(v))
				}
			}
			return nil
		})
		T.Add(Ev{"ev": "Final", "cnt": cnt})
		fails := 0
		for _, p := range pats {
			if p != "ok" {
				fails++
			}
		}
		if fails > 0 && n > 1 {
			res.Counters["batch_with_failures"]++
		}
		res.Counters["batch_runs"]++
		_ = s.CloseAll()
	})
}

func CheckC16(c *Ctx) int {
	c.Assume = []string{"TLC 1.8.0 evaluates the specification correctly", "Inv events are logged inside the batched function, i.e. under the writer lock, so their order relative to BeginWrite / MetaWrite / EndWrite is the real one"}
	c.ModelCheck("Batch", "MC_Batch.cfg", 16, 20*time.Minute)
	c.ModelCheck("Batch", "MC_Batch1.cfg", 16, 20*time.Minute)
	c.ModelCheck("Batch", "MC_Batch3.cfg", 16, 20*time.Minute)
	n := c.Pick(160, 3000)
	var scs []Scenario
	for i := 0; i < n; i++ {
		o := Opts{PageSize: 4096, MaxBatchSize: []int{-1, 1, 2, 3, 4, 8, 1000}[i%7], MaxBatchDelayMs: []int{-1, 1, 3, 10}[(i/7)%4]}
		scs = append(scs, Scenario{Name: fmt.Sprintf("c16-%d-%d", c.Seed, i), Kind: "batch", Seed: c.Seed*911 + int64(i), Opts: o, Profile: "small",
			Params: map[string]int{"callers": 1 + i%9, "pOK": []int{50, 20, 80, 0}[i%4], "stagger": []int{0, 200, 3000}[i%3]}})
	}
	// traces are validated by TraceBatch (own event vocabulary): run the children, then TLC per batch
	c.Absorb(runBatchScenarios(c, scs))
	c.Cov["rule"] = "evaluations = Batch runs (1..9 concurrent callers, per-caller failure pattern in {never, first, second, every invocation, panic first, panic every}, batch size in {disabled, 1, 2, 3, 4, 8, 1000}, delay in {disabled, 1, 3, 10 ms}); TLC validates every invocation, commit and caller result; non-trivial = >= 2 callers and >= 1 failing function"
	return c.Finish(nil)
}

func runBatchScenarios(c *Ctx, scs []Scenario) BatchOutcome {
	// reuse the child machinery, but validate with TraceBatch
	out := BatchOutcome{Counters: map[string]int{}, PerScenario: map[string]map[string]int{}}
	wd := filepath.Join(c.WorkDir, "batch")
	per := 20
	type part struct {
		o BatchOutcome
	}
	ch := make(chan BatchOutcome, len(scs)/per+1)
	sem := make(chan struct{}, 14)
	nb := 0
	for i := 0; i < len(scs); i += per {
		j := i + per
		if j > len(scs) {
			j = len(scs)
		}
		nb++
		sem <- struct{}{}
		go func(tag string, part []Scenario) {
			defer func() { <-sem }()
			ch <- runBatchPart(tag, part, wd, 0)
		}(fmt.Sprintf("p%04d", i), scs[i:j])
	}
	for i := 0; i < nb; i++ {
		o := <-ch
		out.Findings = append(out.Findings, o.Findings...)
		out.Infra = append(out.Infra, o.Infra...)
		for k, v := range o.Counters {
			out.Counters[k] += v
		}
		out.Traces += o.Traces
		out.Events += o.Events
		out.TLCStates += o.TLCStates
		if len(out.Samples) < 2 {
			out.Samples = append(out.Samples, o.Samples...)
		}
	}
	c.Cov["evaluations"] = out.Counters["batch_runs"]
	c.Cov["distinct_nontrivial"] = out.Counters["batch_with_failures"]
	return out
}

var batchEvents = map[string]bool{"BStart": true, "BeginWrite": true, "MetaWrite": true, "EndWrite": true, "Inv": true, "CallEnd": true, "Final": true}

func runBatchPart(tag string, scs []Scenario, wd string, depth int) BatchOutcome {
	o := BatchOutcome{Counters: map[string]int{}, PerScenario: map[string]map[string]int{}}
	jr, out, err := runChild(tag, scs, wd, 5*time.Minute)
	if err != nil && errors.Is(err, ErrHarness) {
		o.Infra = append(o.Infra, err.Error())
		return o
	}
	if err != nil {
		if len(scs) > 1 && depth < 6 {
			h := len(scs) / 2
			a := runBatchPart(tag+"a", scs[:h], wd, depth+1)
			b := runBatchPart(tag+"b", scs[h:], wd, depth+1)
			a.Findings = append(a.Findings, b.Findings...)
			a.Infra = append(a.Infra, b.Infra...)
			for k, v := range b.Counters {
				a.Counters[k] += v
			}
			a.Traces += b.Traces
			a.Events += b.Events
			a.TLCStates += b.TLCStates
			return a
		}
		// a single scenario that kills / hangs the child twice is a finding
		_, out2, err2 := runChild(tag+"x", scs, wd, 5*time.Minute)
		if err2 != nil {
			o.Findings = append(o.Findings, Finding{Scenario: scs[0], Spec: "harness", Detail: "Batch run died or hung (twice): " + err2.Error() + " " + Tail(out2, 8)})
		} else {
			o.Infra = append(o.Infra, "batch child failed once: "+err.Error()+" "+Tail(out, 5))
		}
		return o
	}
	byName := map[string]Scenario{}
	for _, sc := range scs {
		byName[sc.Name] = sc
	}
	for _, r := range jr.Results {
		for k, v := range r.Counters {
			o.Counters[k] += v
		}
		if r.Panic != "" {
			o.Findings = append(o.Findings, Finding{Scenario: byName[r.Name], Spec: "harness", Detail: "panic: " + firstLines(r.Panic, 8)})
		}
	}
	if len(jr.Results) > 0 && len(jr.Results[0].Sample) > 0 {
		o.Samples = append(o.Samples, map[string]any{"scenario": scs[0], "first_events": jr.Results[0].Sample})
	}
	// the kv trace file holds BeginWrite/MetaWrite/EndWrite; Inv/CallEnd/Final/BStart are added to it by KeepKV below
	r, terr := RunTLC(TLCJob{Module: "TraceBatch", Config: "TraceBatch.cfg", Files: map[string]string{"trace.ndjson": jr.KVFile}, Timeout: 10 * time.Minute, HeapMB: 2000})
	if terr != nil {
		o.Infra = append(o.Infra, terr.Error())
		return o
	}
	o.TLCStates += r.Distinct
	o.Traces += len(jr.Results)
	if r.OK {
		for _, sr := range jr.Results {
			o.Events += int64(sr.KVTo - sr.KVFrom + 1)
		}
		return o
	}
	if r.Rejected == 0 {
		o.Infra = append(o.Infra, "TraceBatch did not finish: "+Tail(r.Output, 10))
		return o
	}
	hit := ""
	for _, sr := range jr.Results {
		if r.Rejected >= sr.KVFrom && r.Rejected <= sr.KVTo {
			hit = sr.Name
		}
	}
	if len(scs) == 1 || hit == "" {
		o.Findings = append(o.Findings, Finding{Scenario: byName[hit], Spec: "TraceBatch", Detail: r.Mismatch, Line: r.Rejected})
		return o
	}
	// triage: the rejected scenario alone (schedules differ between runs: the recorded trace is the evidence), the rest again
	var rest []Scenario
	for _, sc := range scs {
		if sc.Name != hit {
			rest = append(rest, sc)
		}
	}
	o.Findings = append(o.Findings, Finding{Scenario: byName[hit], Spec: "TraceBatch", Detail: r.Mismatch, Line: r.Rejected})
	if depth < 6 {
		b := runBatchPart(tag+"r", rest, wd, depth+1)
		o.Findings = append(o.Findings, b.Findings...)
		o.Infra = append(o.Infra, b.Infra...)
		o.Events += b.Events
	}
	return o
}
