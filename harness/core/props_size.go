package core

import (
	"fmt"
	"math/rand"
	"path/filepath"
	"time"
)

// C18: the data file never grows beyond MaxSize.

func init() {
	RegisterRunner("size", func(sc Scenario, s *Session, rng *rand.Rand, res *ScenarioResult) {
		if err := s.Open(true); err != nil {
			panic(err)
		}
		const W = 1
		nk := 0
		refused := 0
		// grow until the limit refuses, then keep working within it, reopen, repeat
		for round := 0; round < sc.Params["rounds"]; round++ {
			s.Exec(Step{Ev: "Begin", H: W, W: true})
			if s.Tx(W) == nil {
				s.Exec(Step{Ev: "Reopen"})
				continue
			}
			s.Exec(Step{Ev: "Op", H: W, Op: "CreateBucketIfNotExists", K: 1})
			n := 1 + rng.Intn(sc.Params["burst"])
			for i := 0; i < n; i++ {
				nk++
				s.Exec(Step{Ev: "Op", H: W, Op: "Put", Path: []int{1}, K: 1 + nk%400, V: 1 + rng.Intn(6)})
			}
			if rng.Intn(4) == 0 {
				for i := 0; i < n/2; i++ {
					s.Exec(Step{Ev: "Op", H: W, Op: "Delete", Path: []int{1}, K: 1 + rng.Intn(400)})
				}
			}
			before := len(s.T.Events)
			s.Exec(Step{Ev: "End", H: W, How: "commit"})
			for _, e := range s.T.Events[before:] {
				if e["ev"] == "End" && e["err"] == "ErrMaxSizeReached" {
					refused++
					res.Counters["size_refused"]++
				}
			}
			if refused > 0 && rng.Intn(3) == 0 {
				// a smaller transaction must still succeed within the limit, and the database reopens
				s.Exec(Step{Ev: "Begin", H: W, W: true})
				s.Exec(Step{Ev: "Op", H: W, Op: "Delete", Path: []int{1}, K: 1 + rng.Intn(400)})
				s.Exec(Step{Ev: "End", H: W, How: "commit"})
				s.Exec(Step{Ev: "Reopen"})
				s.Exec(Step{Ev: "Begin", H: 2, W: false})
				s.Exec(Step{Ev: "Dump", H: 2})
				s.Exec(Step{Ev: "End", H: 2, How: "rollback"})
			}
		}
		_ = s.CloseAll()
	})
}

func init() {
	// One allocation that takes the memory map from at most AllocSize to beyond it ("regime crossing"): the size
	// the file will be grown to is then minsz + AllocSize, not the next map size. MaxSize lies between the two,
	// so the transaction must be refused. A few small commits with deletions come first, so that free pages exist.
	RegisterRunner("sizecross", func(sc Scenario, s *Session, rng *rand.Rand, res *ScenarioResult) {
		if err := s.Open(true); err != nil {
			panic(err)
		}
		const W = 1
		for round := 0; round < 3; round++ {
			s.Exec(Step{Ev: "Begin", H: W, W: true})
			s.Exec(Step{Ev: "Op", H: W, Op: "CreateBucketIfNotExists", K: 1})
			for i := 0; i < 12; i++ {
				s.Exec(Step{Ev: "Op", H: W, Op: "Put", Path: []int{1}, K: 1 + round*12 + i, V: 1 + (round*12+i)%6})
			}
			if round > 0 {
				for i := 0; i < 8; i++ {
					s.Exec(Step{Ev: "Op", H: W, Op: "Delete", Path: []int{1}, K: 1 + (round-1)*12 + i})
				}
			}
			s.Exec(Step{Ev: "End", H: W, How: "commit"})
		}
		before := len(s.T.Events)
		s.Exec(Step{Ev: "Begin", H: W, W: true})
		s.Exec(Step{Ev: "Op", H: W, Op: "Put", Path: []int{1}, K: 200, V: 7}) // the big value (id 7: length from the profile name)
		s.Exec(Step{Ev: "End", H: W, How: "commit"})
		for _, e := range s.T.Events[before:] {
			if e["ev"] == "End" && e["err"] == "ErrMaxSizeReached" {
				res.Counters["size_refused"]++
				res.Counters["regime_crossings_refused"]++
			}
		}
		// the database keeps working within the limit, closes and reopens
		s.Exec(Step{Ev: "Begin", H: W, W: true})
		s.Exec(Step{Ev: "Op", H: W, Op: "Put", Path: []int{1}, K: 201, V: 2})
		s.Exec(Step{Ev: "End", H: W, How: "commit"})
		s.Exec(Step{Ev: "Reopen"})
		s.Exec(Step{Ev: "Begin", H: 2, W: false})
		s.Exec(Step{Ev: "Dump", H: 2})
		s.Exec(Step{Ev: "End", H: 2, How: "rollback"})
		_ = s.CloseAll()
	})
}

func CheckC18(c *Ctx) int {
	c.Assume = append(boltAssume(), "file lengths are observed after every write transaction (independent read of the file) and at every truncate / write the code issues")
	if c.Replay != "" {
		return replayScenario(c, ValidateSpec{KV: true, Bolt: true}, nil)
	}
	c.ModelCheck("Size", "MC_Size.cfg", 16, 30*time.Minute)
	c.ModelCheck("Size", "MC_Size_nogrow.cfg", 16, 30*time.Minute)
	n := c.Pick(36, 500)
	var scs []Scenario
	rng := rand.New(rand.NewSource(c.Seed))
	for i := 0; i < n; i++ {
		ps := []int{1024, 4096, 4096, 16384}[i%4]
		// limits unaligned to page, chunk and map boundaries; initial map sizes below / above the limit
		limits := []int{100000, 131072, 1 << 20, 1<<20 + 1, 300000, 65536 + 7, 1<<21 - 5, 40 * ps, 40*ps + 123}
		o := Opts{PageSize: ps, MaxSize: limits[rng.Intn(len(limits))], InitialMmapSize: []int{0, 65536, 1 << 20, 1 << 23}[rng.Intn(4)],
			AllocSize: []int{0, 32768, 65536, 1 << 20}[rng.Intn(4)], NoGrowSync: i%7 == 6, NoFreelistSync: i%5 == 4}
		if i%2 == 1 {
			o.Freelist = "hashmap"
		}
		prof := []string{"half", "page", "quarter", "small"}[i%4]
		if ps == 16384 {
			prof = "small"
		}
		scs = append(scs, Scenario{Name: fmt.Sprintf("c18-%d-%d", c.Seed, i), Kind: "size", Seed: c.Seed*2203 + int64(i), Opts: o, Profile: prof, Observe: true,
			Params: map[string]int{"rounds": 22, "burst": 20 + rng.Intn(60)}})
	}
	// regime crossings: alloc chunk A, a value that puts minsz about A/2 below a power of two 2^k > A, limit 2^k + A/4
	for i := 0; i < c.Pick(8, 40); i++ {
		ps := []int{1024, 4096}[i%2]
		a := []int{65536, 131072, 32768}[i%3]
		pow := a * []int{4, 8, 2}[(i/3)%3]
		valLen := pow - a/2 - 12*ps + (i%5)*ps
		o := Opts{PageSize: ps, AllocSize: a, MaxSize: pow + a/4 + i%3, NoFreelistSync: i%4 == 3}
		if i%2 == 1 {
			o.Freelist = "hashmap"
		}
		scs = append(scs, Scenario{Name: fmt.Sprintf("c18x-%d-%d", c.Seed, i), Kind: "sizecross", Seed: c.Seed*31 + int64(i), Opts: o, Profile: fmt.Sprintf("cross:%d", valLen), Observe: true})
	}
	o := RunScenarios(scs, ValidateSpec{KV: true, Bolt: true}, filepath.Join(c.WorkDir, "runs"), 14, 4, c.ChildTimeout())
	c.Absorb(o)
	c.Cov["regime_crossings_refused"] = o.Counters["regime_crossings_refused"]
	c.Cov["evaluations"] = o.Counters["decoded"]
	c.Cov["distinct_nontrivial"] = DistinctNontrivial(o.PerScenario, func(m map[string]int) bool { return m["size_refused"] > 0 })
	c.Cov["rule"] = "evaluations = file length observations (after every write transaction; plus every truncate / write checked by TLC against max(MaxSize, length at open)); a scenario (limit, page size, initial map size, alloc size drawn from a lattice with unaligned limits) is non-trivial when the limit actually refused >= 1 transaction"
	return c.Finish(nil)
}
