package core

import (
	"bytes"
	"encoding/binary"
	"encoding/json"
	"fmt"
	"math/rand"
	"os"
	"path/filepath"
	"sort"
	"strings"
	"sync"
	"time"

	bolt "go.etcd.io/bbolt"
)

// evalFormat shards `events` over JVMs running EvalFormat.tla and returns the rejected ones.
func (c *Ctx) evalFormat(events []Ev, shards int, tag string) {
	if len(events) == 0 {
		return
	}
	if shards > len(events) {
		shards = len(events)
	}
	per := (len(events) + shards - 1) / shards
	var wg sync.WaitGroup
	var mu sync.Mutex
	for s := 0; s < shards; s++ {
		a, b := s*per, (s+1)*per
		if a >= len(events) {
			break
		}
		if b > len(events) {
			b = len(events)
		}
		wg.Add(1)
		go func(s int, evs []Ev) {
			defer wg.Done()
			for len(evs) > 0 {
				tf := filepath.Join(c.WorkDir, fmt.Sprintf("%s-%d.ndjson", tag, s))
				if _, err := WriteNDJSON(tf, evs, nil); err != nil {
					mu.Lock()
					c.Infra = append(c.Infra, err.Error())
					mu.Unlock()
					return
				}
				r, err := RunTLC(TLCJob{Module: "EvalFormat", Config: "EvalFormat.cfg", Files: map[string]string{"files.ndjson": tf}, Timeout: 40 * time.Minute, HeapMB: 3000})
				mu.Lock()
				ts, _ := c.Cov["trace_validation_states"].(int64)
				c.Cov["trace_validation_states"] = ts + r.Distinct
				if err != nil {
					c.Infra = append(c.Infra, err.Error())
					mu.Unlock()
					return
				}
				if r.OK {
					mu.Unlock()
					return
				}
				if r.Rejected == 0 || r.Rejected > len(evs) {
					c.Infra = append(c.Infra, "EvalFormat did not finish: "+Tail(r.Output, 15))
					mu.Unlock()
					return
				}
				bad := evs[r.Rejected-1]
				name, _ := bad["name"].(string)
				// keep the artefact small: the bytes are reproducible from the scenario name
				small := Ev{}
				for k, v := range bad {
					if k != "bytes" {
						small[k] = v
					}
				}
				sj, _ := json.Marshal(small)
				c.Findings = append(c.Findings, Finding{Scenario: Scenario{Name: name, Kind: "format", Profile: string(sj)}, Spec: "EvalFormat", Detail: r.Mismatch, Line: r.Rejected})
				mu.Unlock()
				evs = evs[r.Rejected:] // continue with the rest of the shard
			}
		}(s, events[a:b])
	}
	wg.Wait()
}

func graphOf(d *Decoded) map[string]any {
	reach := []uint64{}
	for _, id := range d.TreePages() {
		for i := 0; i < d.Reach[id]; i++ {
			reach = append(reach, id)
		}
	}
	free := d.FreeIDs
	if free == nil {
		free = []uint64{}
	}
	fl := d.FLPages
	if fl == nil {
		fl = []uint64{}
	}
	bad, dis := 0, 0
	for _, p := range d.Problems {
		if Contains(p, "has flags", "flags 0x") {
			bad++
		}
		if Contains(p, "out of order", "separator") {
			dis++
		}
	}
	hasfl := d.Active >= 0 && d.Meta[d.Active].Freelist >= 0
	return map[string]any{"hwm": d.Hwm, "reach": reach, "free": free, "fl": fl, "hasfl": hasfl, "badtype": bad, "disorder": dis}
}

// BuildPanics collects panics of the real code raised while buildFiles executed generated histories.
var (
	BuildPanics  []string
	buildPanicMu sync.Mutex
)

// buildFiles produces n database files in parallel.
func buildFiles(dir string, n int, seed int64, small bool) []*BuiltFile {
	out := make([]*BuiltFile, n)
	var wg sync.WaitGroup
	sem := make(chan struct{}, 12)
	for i := 0; i < n; i++ {
		wg.Add(1)
		sem <- struct{}{}
		go func(i int) {
			defer wg.Done()
			defer func() { <-sem }()
			rng := rand.New(rand.NewSource(seed*131 + int64(i)))
			ps := []int{1024, 4096, 1024, 16384}[i%4]
			if small && ps == 16384 {
				ps = 4096
			}
			o := Opts{PageSize: ps, NoFreelistSync: i%5 == 3, AllocSize: 32768}
			if i%2 == 1 {
				o.Freelist = "hashmap"
			}
			profs := []string{"small", "half", "quarter", "page", "mixed", "tiny", "bigkey"}
			prof := ProfileByName(ps, profs[i%len(profs)])
			g := GenCfg{Keys: 8 + rng.Intn(30), Vals: 8, MaxDepth: 2 + rng.Intn(2), Txs: 5 + rng.Intn(12), OpsPerTx: 4 + rng.Intn(16), PReopen: 0.1}
			if small {
				g.Keys, g.Txs = 8+rng.Intn(14), 4+rng.Intn(6)
			} else if i%3 == 0 {
				// one big flat bucket: multi-level trees with branch pages
				g = GenCfg{Keys: 120 + rng.Intn(300), Vals: 6, MaxDepth: 2, Txs: 6 + rng.Intn(6), OpsPerTx: 60 + rng.Intn(80), PReopen: 0.1, BigBucket: 300}
			}
			// a panic of the real code while an ordinary history is executed is an observation about the code
			// (reported as a finding by Finish), not a crash of the check
			defer func() {
				if p := recover(); p != nil {
					buildPanicMu.Lock()
					BuildPanics = append(BuildPanics, fmt.Sprintf("history f%03d (page size %d, profile %s): %v", i, ps, prof.Name, p))
					buildPanicMu.Unlock()
				}
			}()
			bf, err := BuildFile(filepath.Join(dir, fmt.Sprintf("f%03d.db", i)), o, prof, seed*977+int64(i), g)
			if err == nil {
				out[i] = bf
			}
		}(i)
	}
	done := make(chan struct{})
	go func() { wg.Wait(); close(done) }()
	select {
	case <-done:
	case <-time.After(20 * time.Minute):
		// a call of the real code does not return (these histories take seconds): reported like a panic
		buildPanicMu.Lock()
		BuildPanics = append(BuildPanics, "a generated history did not finish within 20 minutes: a call of the real code does not return")
		buildPanicMu.Unlock()
		return nil
	}
	var r []*BuiltFile
	for _, b := range out {
		if b != nil {
			r = append(r, b)
		}
	}
	return r
}

func fileEvent(bf *BuiltFile, name string, withBytes bool) (e Ev, d *Decoded, err error) {
	// a panic of the real code while opening / reading a file is an observation about the code, not a crash of the check
	defer func() {
		if p := recover(); p != nil {
			e, err = nil, fmt.Errorf("panic: %v", p)
		}
	}()
	return fileEvent1(bf, name, withBytes)
}

func fileEvent1(bf *BuiltFile, name string, withBytes bool) (Ev, *Decoded, error) {
	raw, err := os.ReadFile(bf.Path)
	if err != nil {
		return nil, nil, err
	}
	d := DecodeBytes(raw)
	var api map[string]any
	var txid int
	var hwm int64
	db, err := bolt.Open(bf.Path, 0o600, &bolt.Options{ReadOnly: true, PreLoadFreelist: true, Timeout: time.Second})
	if err != nil {
		return nil, d, err
	}
	pinfo := []map[string]any{}
	_ = db.View(func(tx *bolt.Tx) error {
		api = apiSums(tx, nil)
		txid = tx.ID()
		hwm = tx.Size() / int64(d.PageSize)
		if withBytes {
			// the page-inspection API, for every page id up to and including the high-water mark
			for id := 0; id <= int(hwm); id++ {
				pi, perr := tx.Page(id)
				q := map[string]any{"id": id, "type": "none", "count": 0, "ov": 0}
				if perr != nil {
					q["type"] = "error: " + perr.Error()
				} else if pi != nil {
					t := pi.Type
					if strings.HasPrefix(t, "unknown") {
						t = "unknown"
					}
					q = map[string]any{"id": pi.ID, "type": t, "count": pi.Count, "ov": pi.OverflowCount}
				}
				pinfo = append(pinfo, q)
			}
		}
		return nil
	})
	db.Close()
	e := Ev{"ev": "File", "name": name, "ps": d.PageSize, "api": map[string]any{"txid": txid, "hwm": hwm, "root": api}, "graph": graphOf(d), "pinfo": pinfo}
	// the command-line views of the same file: `bbolt pages` (a table of the pages) and `bbolt info`
	e["cliPages"], e["cliInfo"], e["cli"] = []map[string]any{}, 0, false
	if withBytes {
		if rows, ok := CLIPages(bf.Path); ok {
			e["cliPages"], e["cliInfo"], e["cli"] = rows, CLIInfo(bf.Path), true
		} else {
			e["cliInfo"] = -2 // the command failed: a mismatch
			e["cli"] = true
		}
	}
	if withBytes {
		n := int(d.Hwm) * d.PageSize
		if n > len(raw) {
			n = len(raw)
		}
		e["bytes"] = intsOf(raw[:n])
	}
	return e, d, nil
}

// ---------------------------------------------------------------- C12

func CheckC12(c *Ctx) int {
	c.Assume = []string{"TLC 1.8.0 evaluates Format.tla correctly (32-bit integers: 64-bit fields are read as low 4 bytes + zero high bytes)",
		"files larger than ~256 KiB and the > 65534-entry freelist are decided by the Go decoder, which is cross-validated against Format.tla on every smaller file of the run"}
	dir := filepath.Join(c.WorkDir, "files")
	_ = os.MkdirAll(dir, 0o755)
	// (1) small files: TLC decodes the bytes with Format.tla
	small := buildFiles(dir, c.Pick(24, 160), c.Seed, true)
	var evs []Ev
	for i, bf := range small {
		e, d, err := fileEvent(bf, fmt.Sprintf("small-%d-%s-ps%d", i, bf.Profile.Name, bf.Opts.PageSize), true)
		if err != nil {
			c.Findings = append(c.Findings, Finding{Scenario: Scenario{Name: fmt.Sprintf("small-%d", i), Kind: "format"}, Spec: "harness", Detail: "file written by the current tree does not open / read back: " + err.Error()})
			continue
		}
		if int(d.Hwm)*d.PageSize > 400000 {
			continue
		}
		evs = append(evs, e)
		if i == 0 {
			s := Ev{}
			for k, v := range e {
				if k != "bytes" {
					s[k] = v
				}
			}
			c.AddSample(s)
		}
	}
	// golden corpus: files written by the pinned build
	goldens, _ := filepath.Glob(filepath.Join(VerifRoot, "golden", "*.db"))
	sort.Strings(goldens)
	for _, gp := range goldens {
		exp, err := os.ReadFile(gp + ".json")
		if err != nil {
			c.Infra = append(c.Infra, "golden file without recorded dump: "+gp)
			continue
		}
		cp := filepath.Join(dir, "golden-"+filepath.Base(gp))
		if err := copyTo(gp, cp); err != nil {
			c.Infra = append(c.Infra, err.Error())
			continue
		}
		bf := &BuiltFile{Path: cp}
		e, _, err := fileEvent(bf, "golden-"+filepath.Base(gp), true)
		if err != nil {
			c.Findings = append(c.Findings, Finding{Scenario: Scenario{Name: "golden-" + filepath.Base(gp), Kind: "format"}, Spec: "harness", Detail: "file written by the pinned build does not open: " + err.Error()})
			continue
		}
		// the recorded dump replaces what the current tree reports: Format.Decode must reproduce it,
		// and the current tree must report the same
		var rec map[string]any
		_ = json.Unmarshal(exp, &rec)
		cur, _ := json.Marshal(e["api"])
		var curN map[string]any
		_ = json.Unmarshal(cur, &curN)
		a, _ := json.Marshal(rec)
		b, _ := json.Marshal(curN)
		if !bytes.Equal(a, b) {
			c.Findings = append(c.Findings, Finding{Scenario: Scenario{Name: "golden-" + filepath.Base(gp), Kind: "format"}, Spec: "harness", Detail: "file written by the pinned build reads back differently"})
		}
		e["api"] = rec
		evs = append(evs, e)
	}
	c.Cov["golden_files"] = len(goldens)
	c.evalFormat(evs, 14, "fmt")
	c.Cov["files_decoded_by_tlc"] = len(evs)
	npi := 0
	for _, e := range evs {
		if pi, ok := e["pinfo"].([]map[string]any); ok {
			npi += len(pi)
		}
	}
	c.Cov["tx_page_infos_compared"] = npi
	// the 0xFFFF count convention of the freelist page: > 65534 ids written by both real backends, the page
	// image decoded with nothing but the published layout and judged by TLC (TraceFreelist: count field 0xFFFF,
	// leading element = number of ids, ids = sorted free + pending), then re-read by the other backend
	c.Cov["freelist_overflow_ops"] = c.runFreelistPrograms(bigFreelistPrograms(), 2)
	c.Cov["freelist_images_with_0xFFFF_count"] = OverflowImages.Load()
	if OverflowImages.Load() == 0 {
		c.Infra = append(c.Infra, "the > 65534-id scenario did not produce a page image with the 0xFFFF count convention")
	}
	// (2) many more / larger files: the Go decoder vs the API (exact byte-level projection)
	big := buildFiles(filepath.Join(c.WorkDir), c.Pick(60, 600), c.Seed+5, false)
	nt := 0
	for i, bf := range big {
		d, err := DecodeFile(bf.Path)
		if err != nil {
			continue
		}
		if d.NBranch > 0 || d.NOverflow > 0 || d.NInline > 0 {
			nt++
		}
		var api map[string]any
		db, err := bolt.Open(bf.Path, 0o600, &bolt.Options{ReadOnly: true, Timeout: time.Second})
		if err != nil {
			c.Findings = append(c.Findings, Finding{Scenario: Scenario{Name: fmt.Sprintf("big-%d", i), Kind: "format"}, Spec: "harness", Detail: "cannot reopen: " + err.Error()})
			continue
		}
		s := &Session{Prof: bf.Profile}
		_ = db.View(func(tx *bolt.Tx) error { api = s.dumpBucket(tx, nil); return nil })
		db.Close()
		a, _ := json.Marshal(api)
		var dec []byte
		if d.Root != nil {
			dec, _ = json.Marshal(d.Root.Project(bf.Profile))
		}
		if !bytes.Equal(a, dec) || !d.Consistent() {
			c.Findings = append(c.Findings, Finding{Scenario: Scenario{Name: fmt.Sprintf("big-%d-%s-ps%d-seed%d", i, bf.Profile.Name, bf.Opts.PageSize, c.Seed), Kind: "format"}, Spec: "decoder",
				Detail: fmt.Sprintf("independent decode of the file differs from the API dump, or accounting problems: %v", d.Problems)})
		}
		os.Remove(bf.Path)
	}
	c.bigFreelistFile()
	c.traces = len(evs) + len(big)
	c.Cov["evaluations"] = len(evs) + len(big)
	c.Cov["distinct_nontrivial"] = nt + len(evs)
	c.Cov["rule"] = "evaluations = files decoded (by TLC evaluating Format.tla on the bytes for files up to 400 kB, plus the golden corpus; by the cross-validated Go decoder for the rest); non-trivial = file has branch pages, overflow pages or inline buckets (all TLC-decoded files are counted, their page graph is additionally compared between TLC and the Go decoder)"
	return c.Finish(nil)
}

// MakeGolden writes the golden corpus (run once with the pinned build; the files are committed).
func MakeGolden(dir string) error {
	_ = os.MkdirAll(dir, 0o755)
	tmp, _ := os.MkdirTemp("", "verif-golden-")
	defer os.RemoveAll(tmp)
	files := buildFiles(tmp, 14, 424242, true)
	for i, bf := range files {
		d, err := DecodeFile(bf.Path)
		if err != nil || int(d.Hwm)*d.PageSize > 120000 {
			continue
		}
		raw, _ := os.ReadFile(bf.Path)
		raw = raw[:int(d.Hwm)*d.PageSize]
		name := filepath.Join(dir, fmt.Sprintf("g%02d-ps%d-%s.db", i, bf.Opts.PageSize, bf.Profile.Name))
		if err := os.WriteFile(name, raw, 0o644); err != nil {
			return err
		}
		e, _, err := fileEvent(&BuiltFile{Path: name}, "g", false)
		if err != nil {
			return err
		}
		b, _ := json.MarshalIndent(e["api"], "", " ")
		if err := os.WriteFile(name+".json", b, 0o644); err != nil {
			return err
		}
	}
	return nil
}

func init() {
	RegisterCmd("make-golden", func(args []string) {
		if err := MakeGolden(filepath.Join(VerifRoot, "golden")); err != nil {
			fmt.Println("make-golden:", err)
			os.Exit(1)
		}
	})
}

// ---------------------------------------------------------------- C11

func metaPrefix(raw []byte, ps, slot int) []int {
	// always 80 entries: a file too short to hold the structure reads as zeros (= invalid magic)
	out := make([]byte, 80)
	off := slot * ps
	if off < len(raw) {
		copy(out, raw[off:])
	}
	return intsOf(out)
}

func CheckC11(c *Ctx) int {
	c.Level = "fault_enumeration"
	c.Assume = []string{"TLC 1.8.0 evaluates Format.tla (meta validity incl. FNV-1a-64 written out in TLA+) correctly",
		"files are at rest after a successful commit (the older meta's version is still intact)"}
	dir := filepath.Join(c.WorkDir, "files")
	_ = os.MkdirAll(dir, 0o755)
	nfiles := c.Pick(3, 12)
	var files []*BuiltFile
	for i := 0; i < nfiles; i++ {
		ps := []int{1024, 4096, 16384}[i%3]
		o := Opts{PageSize: ps, NoFreelistSync: i%4 == 3, AllocSize: 32768}
		if i%2 == 1 {
			o.Freelist = "hashmap"
		}
		prof := ProfileByName(ps, []string{"small", "half", "tiny"}[i%3])
		bf, err := BuildFile(filepath.Join(dir, fmt.Sprintf("m%02d.db", i)), o, prof, c.Seed*53+int64(i), GenCfg{Keys: 10, Vals: 6, MaxDepth: 2, Txs: 4 + i%4, OpsPerTx: 6})
		if err != nil {
			c.Infra = append(c.Infra, err.Error())
			continue
		}
		files = append(files, bf)
	}
	type job struct {
		name string
		bf   *BuiltFile
		mut  func(raw []byte) []byte
	}
	var jobs []job
	rng := rand.New(rand.NewSource(c.Seed))
	for fi, bf := range files {
		ps := bf.Opts.PageSize
		raw0, _ := os.ReadFile(bf.Path)
		d0 := DecodeBytes(raw0)
		if d0.Active < 0 {
			c.Infra = append(c.Infra, "built file has no valid meta")
			continue
		}
		older := 1 - d0.Active
		// every byte position of the 64-byte meta structure x replacement values, in either meta page
		for slot := 0; slot < 2; slot++ {
			for pos := 0; pos < 64; pos++ {
				var vals []int
				if c.Thorough() {
					for v := 0; v < 256; v++ {
						vals = append(vals, v)
					}
				} else {
					vals = []int{0, 255, rng.Intn(256), int(raw0[slot*ps+16+pos]) ^ 1}
				}
				for _, v := range vals {
					off := slot*ps + 16 + pos
					if int(raw0[off]) == v {
						continue
					}
					off, v := off, v
					jobs = append(jobs, job{fmt.Sprintf("f%d-ps%d-slot%d-pos%d-val%d", fi, ps, slot, pos, v), bf, func(raw []byte) []byte { raw[off] = byte(v); return raw }})
				}
			}
		}
		// partial overwrite of the older meta's slot by the would-be next meta (k bytes of the structure)
		next := make([]byte, 64)
		copy(next, raw0[d0.Active*ps+16:d0.Active*ps+80])
		binary.LittleEndian.PutUint64(next[48:], d0.Txid+1)
		binary.LittleEndian.PutUint64(next[16:], d0.Meta[d0.Active].Root+1)
		binary.LittleEndian.PutUint64(next[56:], fnv64a(next[:56]))
		for k := 1; k <= 63; k++ {
			k := k
			jobs = append(jobs, job{fmt.Sprintf("f%d-ps%d-prefix%d", fi, ps, k), bf, func(raw []byte) []byte { copy(raw[older*ps+16:], next[:k]); return raw }})
		}
		// both damaged, truncated, not a database
		jobs = append(jobs, job{fmt.Sprintf("f%d-ps%d-both", fi, ps), bf, func(raw []byte) []byte { raw[16+50] ^= 0xFF; raw[ps+16+3] ^= 0x10; return raw }})
		jobs = append(jobs, job{fmt.Sprintf("f%d-ps%d-bothmagic", fi, ps), bf, func(raw []byte) []byte { raw[16] ^= 0xFF; raw[ps+16] ^= 0xFF; return raw }})
		jobs = append(jobs, job{fmt.Sprintf("f%d-ps%d-trunc1", fi, ps), bf, func(raw []byte) []byte { return raw[:ps+40] }})
		jobs = append(jobs, job{fmt.Sprintf("f%d-ps%d-trunc2", fi, ps), bf, func(raw []byte) []byte { return raw[:100] }})
		jobs = append(jobs, job{fmt.Sprintf("f%d-ps%d-text", fi, ps), bf, func(raw []byte) []byte { return bytes.Repeat([]byte("not a database\n"), 600) }})
		jobs = append(jobs, job{fmt.Sprintf("f%d-ps%d-zeros", fi, ps), bf, func(raw []byte) []byte { return make([]byte, 4*ps) }})
	}
	events := make([]Ev, len(jobs))
	var wg sync.WaitGroup
	sem := make(chan struct{}, 14)
	var mu sync.Mutex
	panics := 0
	for i, j := range jobs {
		wg.Add(1)
		sem <- struct{}{}
		go func(i int, j job) {
			defer wg.Done()
			defer func() { <-sem }()
			raw, _ := os.ReadFile(j.bf.Path)
			raw = j.mut(append([]byte(nil), raw...))
			p := filepath.Join(dir, fmt.Sprintf("dmg-%d.db", i))
			_ = os.WriteFile(p, raw, 0o600)
			obs := ObserveOpen(p, j.bf.Profile, 0, i%2 == 1)
			os.Remove(p)
			ps := j.bf.Opts.PageSize
			events[i] = Ev{"ev": "Metas", "name": j.name, "ps": ps, "m0": metaPrefix(raw, ps, 0), "m1": metaPrefix(raw, ps, 1), "obs": obs, "versions": j.bf.Versions, "tooSmall": len(raw) < 2*ps}
			if obs.Panic != "" {
				mu.Lock()
				panics++
				c.Findings = append(c.Findings, Finding{Scenario: Scenario{Name: j.name, Kind: "format"}, Spec: "harness", Detail: "Open panicked on a damaged file: " + obs.Panic})
				mu.Unlock()
			}
		}(i, j)
	}
	wg.Wait()
	// page-size detection through meta 1 for EVERY supported page size (db.go getPageSizeFromSecondMeta tries
	// 1024 << 0..14): a small file per size, meta 0 damaged in place, opened without telling the page size
	sweep := 0
	for i := 0; i <= 14; i++ {
		ps := 1024 << i
		path := filepath.Join(dir, fmt.Sprintf("sweep-%d.db", i))
		prof := ProfileByName(ps, "tiny")
		bf, err := BuildFile(path, Opts{PageSize: ps}, prof, c.Seed*71+int64(i), GenCfg{Keys: 4, Vals: 3, MaxDepth: 1, Txs: 2 + i%2, OpsPerTx: 2})
		if err != nil || bf == nil {
			c.Infra = append(c.Infra, fmt.Sprintf("cannot build a file with page size %d: %v", ps, err))
			continue
		}
		f, err := os.OpenFile(path, os.O_RDWR, 0)
		if err != nil {
			c.Infra = append(c.Infra, err.Error())
			continue
		}
		head := make([]byte, 2*ps)
		_, _ = f.ReadAt(head, 0)
		head[16+48] ^= 0x5A // one byte of meta 0's txid: its checksum no longer matches
		_, _ = f.WriteAt(head[16+48:16+49], 16+48)
		f.Close()
		obs := ObserveOpen(path, prof, 0, i%2 == 1)
		events = append(events, Ev{"ev": "Metas", "name": fmt.Sprintf("sweep-ps%d-meta0-damaged", ps), "ps": ps, "m0": metaPrefix(head, ps, 0), "m1": metaPrefix(head, ps, 1), "obs": obs,
			"versions": bf.Versions, "tooSmall": false})
		os.Remove(path)
		sweep++
	}
	c.Cov["page_sizes_swept_with_meta0_damaged"] = sweep
	c.evalFormat(events, 14, "meta")
	c.AddSample(events[0])
	c.AddSample(events[len(events)-1])
	c.traces = len(events)
	c.Cov["evaluations"] = len(events)
	c.Cov["distinct_nontrivial"] = len(events)
	c.Cov["exhaustive"] = c.Thorough()
	c.Cov["rule"] = "one damaged copy per (file, meta slot, byte position 0..63 of the meta structure, replacement value) - all 255 values in the thorough tier, 3-4 per position in the quick tier - plus every prefix overwrite (1..64 bytes) by the would-be next meta, both metas damaged, truncated and non-database files, and one file per supported page size (1 KiB .. 16 MiB) with meta 0 damaged and the page size not given to Open; each is opened with the real code and TLC decides from the damaged bytes (Format.MetaAt with FNV-1a-64) which meta must be presented; all cases are distinct by construction"
	return c.Finish(nil)
}

// bigFreelistFile (thorough tier): a real file whose freelist page holds more than 65534 ids; the
// independent decoder (0xFFFF rule) must agree with the API (free count, Tx.Check) and the accounting.
func (c *Ctx) bigFreelistFile() {
	path := filepath.Join(c.WorkDir, "bigfl.db")
	db, err := bolt.Open(path, 0o600, &bolt.Options{PageSize: 1024, Timeout: time.Second, InitialMmapSize: 1 << 28})
	if err != nil {
		c.Infra = append(c.Infra, "bigfl: "+err.Error())
		return
	}
	db.AllocSize = 1 << 24
	val := make([]byte, 900)
	key := func(i int) []byte { return []byte(fmt.Sprintf("k%07d", i)) }
	n := 72000
	for a := 0; a < n; a += 6000 {
		_ = db.Update(func(tx *bolt.Tx) error {
			b, _ := tx.CreateBucketIfNotExists([]byte("b"))
			for i := a; i < a+6000; i++ {
				_ = b.Put(key(i), val)
			}
			return nil
		})
	}
	_ = db.Update(func(tx *bolt.Tx) error { return tx.DeleteBucket([]byte("b")) })
	_ = db.Update(func(tx *bolt.Tx) error { _, err := tx.CreateBucketIfNotExists([]byte("c")); return err })
	free := db.Stats().FreePageN
	pend := db.Stats().PendingPageN
	_ = db.Close()
	d, err := DecodeFile(path)
	if err != nil {
		c.Infra = append(c.Infra, "bigfl: "+err.Error())
		return
	}
	obs := ObserveOpenSub(path, "small", 1024, false)
	c.Cov["big_freelist_file"] = map[string]any{"ids_in_freelist_page": len(d.FreeIDs), "api_free": free, "api_pending": pend, "check_errors": obs.CheckErrs, "decoder_problems": len(d.Problems)}
	if len(d.FreeIDs) < 65535 {
		c.Infra = append(c.Infra, fmt.Sprintf("bigfl: only %d ids in the freelist page (need > 65534)", len(d.FreeIDs)))
		return
	}
	if len(d.FreeIDs) != free+pend || !d.Consistent() || obs.CheckErrs != 0 || !obs.Opened {
		c.Findings = append(c.Findings, Finding{Scenario: Scenario{Name: "big-freelist-file", Kind: "format"}, Spec: "decoder",
			Detail: fmt.Sprintf("file with %d listed ids: API reports free %d + pending %d, check errors %d, decoder problems %v", len(d.FreeIDs), free, pend, obs.CheckErrs, d.Problems)})
	}
	os.Remove(path)
}
