package core

import (
	"fmt"
	"math/rand"
	"runtime"
	"sync"
	"sync/atomic"
	"time"

	bolt "go.etcd.io/bbolt"
)

// Truly concurrent drivers (C02, C03): goroutines call the database-level entry points
// concurrently; hook events are ordered by the tracer's sequence number taken under bbolt's
// own locks, driver events are logged right after each call returns.

func concurrentScenarios(prefix string, n int, seed int64) []Scenario {
	var scs []Scenario
	for i := 0; i < n; i++ {
		o := Opts{PageSize: []int{1024, 4096}[i%2]}
		if i%2 == 1 {
			o.Freelist = "hashmap"
		}
		o.NoFreelistSync = i%3 == 2
		o.NoStatistics = i%4 == 3
		if i%4 < 2 {
			o.InitialMmapSize = 1 << 25
		}
		scs = append(scs, Scenario{Name: fmt.Sprintf("%s-%d-%d", prefix, seed, i), Kind: "concurrent", Seed: seed*6007 + int64(i), Opts: o,
			Profile: []string{"small", "half", "quarter"}[i%3], Observe: true,
			Params: map[string]int{"readers": 2 + i%5, "writers": 1 + i%3, "txs": 25, "keys": 14, "batchers": i % 3}})
	}
	return scs
}

func init() {
	RegisterRunner("concurrent", runConcurrent)
}

func runConcurrent(sc Scenario, s *Session, rng0 *rand.Rand, res *ScenarioResult) {
	if err := s.Open(true); err != nil {
		panic(err)
	}
	db := s.DB
	T := s.T
	prof := s.Prof
	nkeys := sc.Params["keys"]
	var wg sync.WaitGroup
	var stop atomic.Bool
	var failures []string
	var fmu sync.Mutex
	fail := func(f string) { fmu.Lock(); failures = append(failures, f); fmu.Unlock() }
	deadline := time.AfterFunc(60*time.Second, func() { stop.Store(true) })
	defer deadline.Stop()
	// initial content
	_ = db.Update(func(tx *bolt.Tx) error {
		return nil
	})
	dump := func(h int, tx *bolt.Tx) {
		d := s.dumpBucket(tx, nil)
		T.Add(Ev{"ev": "Dump", "h": h, "root": d})
	}
	writer := func(h int, seed int64) {
		defer wg.Done()
		rng := rand.New(rand.NewSource(seed))
		for i := 0; i < sc.Params["txs"] && !stop.Load(); i++ {
			managed := rng.Intn(2) == 0
			how := "commit"
			switch rng.Intn(6) {
			case 0:
				how = "rollback"
			case 1:
				if managed {
					how = "panic"
				} else {
					how = "rollback"
				}
			}
			body := func(tx *bolt.Tx) {
				T.Add(Ev{"ev": "Begin", "h": h, "w": true, "txid": tx.ID(), "managed": managed})
				nops := 1 + rng.Intn(6)
				for j := 0; j < nops; j++ {
					bk := 1 + rng.Intn(3)
					k := 1 + rng.Intn(nkeys)
					st := Step{Ev: "Op", H: h, Path: []int{bk}, K: k}
					b := tx.Bucket(prof.Key(bk))
					if b == nil {
						_, err := tx.CreateBucket(prof.Key(bk))
						T.Add(Ev{"ev": "Op", "h": h, "op": "CreateBucket", "path": []int{}, "k": bk, "v": 0, "dst": []int{}, "res": ErrName(err), "out": NilV})
						continue
					}
					switch rng.Intn(5) {
					case 0, 1, 2:
						v := 1 + rng.Intn(7)
						err := b.Put(prof.Key(k), prof.Val(v))
						T.Add(Ev{"ev": "Op", "h": h, "op": "Put", "path": st.Path, "k": k, "v": v, "dst": []int{}, "res": ErrName(err), "out": NilV})
					case 3:
						err := b.Delete(prof.Key(k))
						T.Add(Ev{"ev": "Op", "h": h, "op": "Delete", "path": st.Path, "k": k, "v": 0, "dst": []int{}, "res": ErrName(err), "out": NilV})
					case 4:
						// read-modify-write: the sequence is a counter every writer increments
						n, err := b.NextSequence()
						T.Add(Ev{"ev": "Op", "h": h, "op": "NextSequence", "path": st.Path, "k": 0, "v": 0, "dst": []int{}, "res": ErrName(err), "out": int(n)})
					}
					if rng.Intn(4) == 0 {
						runtime.Gosched()
					}
				}
				if rng.Intn(3) == 0 {
					dump(h, tx)
				}
			}
			T.Add(Ev{"ev": "BeginCall", "h": h, "w": true})
			if managed {
				var err error
				func() {
					defer func() {
						if p := recover(); p != nil {
							if p != "verif panic" {
								fail(fmt.Sprintf("foreign panic in Update: %v", p))
							}
							err = fmt.Errorf("panicked")
						}
					}()
					err = db.Update(func(tx *bolt.Tx) error {
						body(tx)
						switch how {
						case "rollback":
							return errFn
						case "panic":
							panic("verif panic")
						}
						return nil
					})
				}()
				ok := (how == "commit" && err == nil) || (how == "rollback" && err == errFn) || (how == "panic" && err != nil)
				T.Add(Ev{"ev": "End", "h": h, "how": how, "ok": ok, "err": ErrName(err), "managed": true, "forced": false})
				if !ok && how != "commit" {
					fail(fmt.Sprintf("Update returned %v for outcome %s", err, how))
				}
			} else {
				tx, err := db.Begin(true)
				if err != nil {
					fail("Begin(true): " + err.Error())
					return
				}
				body(tx)
				if how == "commit" {
					err = tx.Commit()
				} else {
					how = "rollback"
					err = tx.Rollback()
				}
				T.Add(Ev{"ev": "End", "h": h, "how": how, "ok": err == nil, "err": ErrName(err), "managed": false, "forced": false})
			}
		}
	}
	reader := func(h int, seed int64) {
		defer wg.Done()
		rng := rand.New(rand.NewSource(seed))
		for i := 0; i < sc.Params["txs"]*2 && !stop.Load(); i++ {
			T.Add(Ev{"ev": "BeginCall", "h": h, "w": false})
			tx, err := db.Begin(false)
			if err != nil {
				fail("Begin(false): " + err.Error())
				return
			}
			T.Add(Ev{"ev": "Begin", "h": h, "w": false, "txid": tx.ID(), "managed": false})
			dump(h, tx)
			for j := 0; j < rng.Intn(4); j++ {
				runtime.Gosched()
				if rng.Intn(2) == 0 {
					time.Sleep(time.Duration(rng.Intn(300)) * time.Microsecond)
				}
				bk := 1 + rng.Intn(3)
				if b := tx.Bucket(prof.Key(bk)); b != nil {
					k := 1 + rng.Intn(nkeys)
					v := b.Get(prof.Key(k))
					out := NilV
					if v != nil {
						out = prof.ValID(v)
					}
					T.Add(Ev{"ev": "Op", "h": h, "op": "Get", "path": []int{bk}, "k": k, "v": 0, "dst": []int{}, "res": "ok", "out": out})
				}
				dump(h, tx)
			}
			err = tx.Rollback()
			T.Add(Ev{"ev": "End", "h": h, "how": "rollback", "ok": err == nil, "err": ErrName(err), "managed": false, "forced": false})
		}
	}
	// Stats / Batch callers ride along (C03: any number of goroutines on the entry points)
	misc := func(seed int64) {
		defer wg.Done()
		rng := rand.New(rand.NewSource(seed))
		for i := 0; i < sc.Params["txs"]*3 && !stop.Load(); i++ {
			_ = db.Stats()
			_ = db.View(func(tx *bolt.Tx) error { _ = tx.Size(); return nil })
			if rng.Intn(3) == 0 {
				runtime.Gosched()
			}
		}
	}
	h := 1
	for i := 0; i < sc.Params["writers"]; i++ {
		wg.Add(1)
		go writer(h, sc.Seed*31+int64(h))
		h++
	}
	for i := 0; i < sc.Params["readers"]; i++ {
		wg.Add(1)
		go reader(h, sc.Seed*37+int64(h))
		h++
	}
	wg.Add(1)
	go misc(sc.Seed)
	done := make(chan struct{})
	go func() { wg.Wait(); close(done) }()
	s.guard("concurrent run", func() {
		select {
		case <-done:
		case <-time.After(120 * time.Second):
			panic("concurrent run did not finish: lost wake-up or deadlock (C03)")
		}
	})
	res.Failures = append(res.Failures, failures...)
	// quiescent: final state through a fresh reader, page-level observation
	T.Add(Ev{"ev": "BeginCall", "h": 15, "w": false})
	tx, err := db.Begin(false)
	if err == nil {
		T.Add(Ev{"ev": "Begin", "h": 15, "w": false, "txid": tx.ID(), "managed": false})
		dump(15, tx)
		_ = tx.Rollback()
		T.Add(Ev{"ev": "End", "h": 15, "how": "rollback", "ok": true, "err": "ok", "managed": false, "forced": false})
	}
	s.Observe(true)
	if err := s.CloseAll(); err != nil {
		res.Failures = append(res.Failures, "close: "+err.Error())
	}
}
