package core

import (
	"fmt"
	"math/rand"
	"os"
	"path/filepath"
	"time"
)

// ChildBinary overrides the binary used for children (the race-detector build for C03).
var ChildBinary = ""

func boltAssume() []string {
	return []string{"TLC 1.8.0 evaluates the specification correctly",
		"hook events are emitted under the lock protecting the change and ordered by one sequence counter",
		"the independent decoder (harness/core/decode.go, cross-validated against spec/Format.tla by C12) reports the file's page graph faithfully",
		"I/O interposition sees every write / sync / truncate / mmap the DB issues against its data file"}
}

// ---------------------------------------------------------------- C06

func CheckC06(c *Ctx) int {
	c.Assume = boltAssume()
	if c.Replay != "" {
		return replayScenario(c, ValidateSpec{Bolt: true}, nil)
	}
	c.ModelCheck("Bolt", "MC_Isolation.cfg", 16, 30*time.Minute)
	c.ModelCheck("Bolt", "MC_Isolation_nofl.cfg", 16, 30*time.Minute)
	c.ModelCheck("Bolt", "MC_Fault.cfg", 16, 30*time.Minute)
	if c.Thorough() {
		c.ModelCheck("Bolt", "MC_Isolation_deep.cfg", 16, 60*time.Minute)
		c.ModelCheck("Bolt", "MC_Crash_deep.cfg", 16, 60*time.Minute)
	}
	scs := randomScenarios("c06r", c.Pick(60, 900), c.Seed, func(i int, rng *rand.Rand) GenCfg {
		return GenCfg{Keys: 10 + rng.Intn(40), Vals: 8, MaxDepth: 2 + rng.Intn(2), Readers: rng.Intn(4), Txs: 40 + rng.Intn(40), OpsPerTx: 2 + rng.Intn(14),
			PReopen: 0.08}
	}, true)
	scs = append(scs, concurrentScenarios("c06c", c.Pick(6, 80), c.Seed)...)
	scs = append(scs, faultScenarios("c06f", c.Pick(6, 60), c.Seed, true)...)
	o := RunScenarios(scs, ValidateSpec{Bolt: true}, filepath.Join(c.WorkDir, "runs"), 14, 5, c.ChildTimeout())
	c.Absorb(o)
	c.Cov["evaluations"] = o.Counters["io"]
	c.Cov["distinct_nontrivial"] = DistinctNontrivial(o.PerScenario, func(m map[string]int) bool { return m["io"] > 20 && m["alloc_from_free"] > 0 })
	c.Cov["rule"] = "evaluations = intercepted I/O calls (every write's page range is intersected by TLC with the visible versions' page sets); a scenario is non-trivial when pages were recycled from the free list (so a wrong release or allocation could hit a visible page)"
	return c.Finish(nil)
}

// ---------------------------------------------------------------- C07

func CheckC07(c *Ctx) int {
	c.Assume = boltAssume()
	if c.Replay != "" {
		return replayScenario(c, ValidateSpec{Bolt: true}, nil)
	}
	c.ModelCheck("Bolt", "MC_Isolation.cfg", 16, 30*time.Minute)
	c.ModelCheck("Bolt", "MC_Fault_nofl.cfg", 16, 30*time.Minute)
	c.ModelCheck("Bolt", "MC_Crash.cfg", 16, 30*time.Minute)
	c.ModelCheck("BTree", "MC_BTree.cfg", 8, 10*time.Minute)
	if c.Thorough() {
		c.ModelCheck("Bolt", "MC_Fault_deep.cfg", 16, 60*time.Minute)
	}
	// nested bucket deletion and moves, deep nesting
	scs := randomScenarios("c07r", c.Pick(60, 900), c.Seed, func(i int, rng *rand.Rand) GenCfg {
		return GenCfg{Keys: 6 + rng.Intn(20), Vals: 8, MaxDepth: 3 + rng.Intn(3), Readers: rng.Intn(2), Txs: 40 + rng.Intn(30), OpsPerTx: 4 + rng.Intn(16),
			PReopen: 0.1}
	}, true)
	scs = append(scs, randomScenarios("c07b", c.Pick(10, 100), c.Seed+3, func(i int, rng *rand.Rand) GenCfg {
		return GenCfg{Keys: 100 + rng.Intn(300), Vals: 6, MaxDepth: 2, Readers: 1, Txs: 20, OpsPerTx: 40 + rng.Intn(80), PReopen: 0.1, BigBucket: 300}
	}, true)...)
	scs = append(scs, nestedDeleteScenarios("c07n", c.Pick(12, 150), c.Seed)...)
	scs = append(scs, adjacentDeleteScenarios("c07a", c.Pick(6, 40), c.Seed)...)
	scs = append(scs, faultScenarios("c07f", c.Pick(6, 60), c.Seed, false)...)
	o := RunScenarios(scs, ValidateSpec{Bolt: true}, filepath.Join(c.WorkDir, "runs"), 14, 5, c.ChildTimeout())
	c.Absorb(o)
	// the shape of the committed trees (BTree.tla: elements inside their page, balanced, no empty non-root
	// leaf, branches with >= 2 children, inline buckets small and bucket-free), judged by TLC on the
	// decoder's page / bucket records of files with multi-level trees
	fdir := filepath.Join(c.WorkDir, "shapes")
	_ = os.MkdirAll(fdir, 0o755)
	var shapes []Ev
	pagesSeen := 0
	statsSeen := 0
	for i, bf := range buildFiles(fdir, c.Pick(24, 240), c.Seed+77, false) {
		d, err := DecodeFile(bf.Path)
		stats, serr := TopBucketStats(bf.Path)
		cliStats, cliOK := CLIStats(bf.Path)
		if !cliOK {
			cliStats = map[string]int{} // the command failed or printed something else: every field is a mismatch
			for _, k := range []string{"buckets", "branchPageN", "branchOverflowN", "leafPageN", "leafOverflowN", "keyN", "depth", "branchAlloc", "branchInuse", "leafAlloc", "leafInuse", "bucketN", "inlineBucketN", "inlineBucketInuse"} {
				cliStats[k] = -2
			}
		}
		os.Remove(bf.Path)
		if err != nil {
			continue
		}
		// Bucket.Stats() of the i-th top-level bucket belongs to the decoder's i-th top-level bucket record
		var tops []int
		for _, b := range d.Buckets {
			if b.TopLevel {
				tops = append(tops, b.ID)
			}
		}
		if serr != nil || len(stats) != len(tops) {
			c.Findings = append(c.Findings, Finding{Scenario: Scenario{Name: fmt.Sprintf("shape-%d", i), Kind: "check"}, Spec: "harness",
				Detail: fmt.Sprintf("Bucket.Stats of the top-level buckets: %v; %d buckets reported, decoder sees %d", serr, len(stats), len(tops))})
			continue
		}
		for j := range stats {
			stats[j]["id"] = tops[j]
			statsSeen++
		}
		pg, bk := d.Pages, d.Buckets
		if pg == nil {
			pg = []PageShape{}
		}
		if bk == nil {
			bk = []BucketShape{}
		}
		pagesSeen += len(pg)
		shapes = append(shapes, Ev{"ev": "Shape", "name": fmt.Sprintf("shape-%d-ps%d-%s", i, bf.Opts.PageSize, bf.Profile.Name), "ps": d.PageSize, "pages": pg, "buckets": bk, "stats": stats, "cli": true, "cliStats": cliStats})
	}
	c.evalFormat(shapes, 8, "shape")
	c.Cov["tree_shapes_checked"] = len(shapes)
	c.Cov["tree_pages_in_shapes"] = pagesSeen
	c.Cov["bucket_stats_compared"] = statsSeen
	c.Cov["evaluations"] = o.Counters["decoded"]
	c.Cov["distinct_nontrivial"] = DistinctNontrivial(o.PerScenario, func(m map[string]int) bool { return m["decoded"] > 3 && m["free"] > 5 })
	c.Cov["rule"] = "evaluations = independent decodes of the file (after every write transaction and every open) compared by TLC with the specification's tree / freelist / free sets and the partition predicate; non-trivial: >= 4 decodes and > 5 pages freed"
	return c.Finish(nil)
}

func init() {
	// DeleteBucket / MoveBucket of buckets that contain paged nested buckets, with and without
	// touching the parent first in the same transaction.
	RegisterRunner("nested", func(sc Scenario, s *Session, rng *rand.Rand, res *ScenarioResult) {
		if err := s.Open(true); err != nil {
			panic(err)
		}
		const W = 1
		nb := sc.Params["nested"]
		per := sc.Params["keys"]
		s.Exec(Step{Ev: "Begin", H: W, W: true})
		s.Exec(Step{Ev: "Op", H: W, Op: "CreateBucket", K: 1})
		s.Exec(Step{Ev: "Op", H: W, Op: "CreateBucket", K: 2})
		for i := 1; i <= nb; i++ {
			s.Exec(Step{Ev: "Op", H: W, Op: "CreateBucket", Path: []int{1}, K: i})
			for k := 1; k <= per; k++ {
				s.Exec(Step{Ev: "Op", H: W, Op: "Put", Path: []int{1, i}, K: k, V: 1 + rng.Intn(5)})
			}
			if rng.Intn(2) == 0 {
				s.Exec(Step{Ev: "Op", H: W, Op: "CreateBucket", Path: []int{1, i}, K: per + 1})
				s.Exec(Step{Ev: "Op", H: W, Op: "Put", Path: []int{1, i, per + 1}, K: 1, V: 3})
			}
		}
		for k := 1; k <= rng.Intn(per+1); k++ {
			s.Exec(Step{Ev: "Op", H: W, Op: "Put", Path: []int{1}, K: 100 + k, V: 2})
		}
		s.Exec(Step{Ev: "End", H: W, How: "commit"})
		if rng.Intn(3) == 0 {
			s.Exec(Step{Ev: "Reopen"})
		}
		s.Exec(Step{Ev: "Begin", H: W, W: true})
		switch sc.Params["touch"] {
		case 1: // materialize the leaf holding the nested buckets first
			s.Exec(Step{Ev: "Op", H: W, Op: "Put", Path: []int{1}, K: 200, V: 1})
		case 2:
			s.Exec(Step{Ev: "Op", H: W, Op: "Put", Path: []int{1, 1}, K: 1, V: 4})
			s.Exec(Step{Ev: "Op", H: W, Op: "NextSequence", Path: []int{1, 2}})
		case 3:
			s.Exec(Step{Ev: "Op", H: W, Op: "DeleteBucket", Path: []int{1}, K: 1 + rng.Intn(nb)})
		}
		switch sc.Params["action"] {
		case 0:
			s.Exec(Step{Ev: "Op", H: W, Op: "DeleteBucket", K: 1})
		case 1:
			s.Exec(Step{Ev: "Op", H: W, Op: "MoveBucket", K: 1, Dst: []int{2}})
		case 2:
			s.Exec(Step{Ev: "Op", H: W, Op: "MoveBucket", Path: []int{1}, K: 1 + rng.Intn(nb), Dst: []int{2}})
			s.Exec(Step{Ev: "Op", H: W, Op: "DeleteBucket", K: 1})
		case 3:
			s.Exec(Step{Ev: "Op", H: W, Op: "MoveBucket", K: 1, Dst: []int{2}})
			s.Exec(Step{Ev: "Op", H: W, Op: "DeleteBucket", Path: []int{2}, K: 1})
		}
		s.Exec(Step{Ev: "Dump", H: W})
		s.Exec(Step{Ev: "End", H: W, How: "commit"})
		s.Exec(Step{Ev: "Begin", H: 2, W: false})
		s.Exec(Step{Ev: "Dump", H: 2})
		s.Exec(Step{Ev: "End", H: 2, How: "rollback"})
		// a further transaction must be able to reuse everything that was released
		s.Exec(Step{Ev: "Begin", H: W, W: true})
		s.Exec(Step{Ev: "Op", H: W, Op: "CreateBucketIfNotExists", K: 3})
		for k := 1; k <= per; k++ {
			s.Exec(Step{Ev: "Op", H: W, Op: "Put", Path: []int{3}, K: k, V: 1 + rng.Intn(5)})
		}
		s.Exec(Step{Ev: "End", H: W, How: "commit"})
		_ = s.CloseAll()
	})
}

func init() {
	// Two keys per leaf; one transaction deletes one key from each of two ADJACENT leaves of the same branch, so
	// that both stay non-empty but under-full and the commit merges siblings. Which of the two is rebalanced first
	// depends on Go's map iteration order, hence the repetitions on fresh buckets (seeded change S33 shows only
	// in about one of eight such commits).
	RegisterRunner("adjacent", func(sc Scenario, s *Session, rng *rand.Rand, res *ScenarioResult) {
		if err := s.Open(true); err != nil {
			panic(err)
		}
		const W = 1
		for b := 1; b <= sc.Params["buckets"]; b++ {
			s.Exec(Step{Ev: "Begin", H: W, W: true})
			s.Exec(Step{Ev: "Op", H: W, Op: "CreateBucket", K: b})
			for k := 1; k <= 12; k++ {
				s.Exec(Step{Ev: "Op", H: W, Op: "Put", Path: []int{b}, K: k, V: 1 + k%4})
			}
			if b%3 == 0 {
				// a paged nested bucket in the middle: a double reference to its root would show in the page graph
				s.Exec(Step{Ev: "Op", H: W, Op: "CreateBucket", Path: []int{b}, K: 20})
				for k := 1; k <= 6; k++ {
					s.Exec(Step{Ev: "Op", H: W, Op: "Put", Path: []int{b, 20}, K: k, V: 2})
				}
			}
			s.Exec(Step{Ev: "End", H: W, How: "commit"})
			first := 1 + 2*rng.Intn(4) // first key of a leaf (two keys per leaf)
			s.Exec(Step{Ev: "Begin", H: W, W: true})
			if rng.Intn(2) == 0 {
				s.Exec(Step{Ev: "Op", H: W, Op: "Delete", Path: []int{b}, K: first + 2})
				s.Exec(Step{Ev: "Op", H: W, Op: "Delete", Path: []int{b}, K: first})
			} else {
				s.Exec(Step{Ev: "Op", H: W, Op: "Delete", Path: []int{b}, K: first + 1})
				s.Exec(Step{Ev: "Op", H: W, Op: "Delete", Path: []int{b}, K: first + 3})
			}
			s.Exec(Step{Ev: "Dump", H: W})
			s.Exec(Step{Ev: "End", H: W, How: "commit"})
			s.Exec(Step{Ev: "Begin", H: 2, W: false})
			s.Exec(Step{Ev: "Dump", H: 2})
			s.Exec(Step{Ev: "ForEach", H: 2, Path: []int{b}})
			s.Exec(Step{Ev: "End", H: 2, How: "rollback"})
			res.Counters["adjacent_leaf_deletes"]++
		}
		_ = s.CloseAll()
	})
}

func adjacentDeleteScenarios(prefix string, n int, seed int64) []Scenario {
	var scs []Scenario
	for i := 0; i < n; i++ {
		ps := []int{1024, 4096}[i%2]
		o := Opts{PageSize: ps}
		if i%2 == 1 {
			o.Freelist = "hashmap"
		}
		scs = append(scs, Scenario{Name: fmt.Sprintf("%s-%d-%d", prefix, seed, i), Kind: "adjacent", Seed: seed*577 + int64(i), Opts: o, Profile: "half", Observe: true,
			Params: map[string]int{"buckets": 12}})
	}
	return scs
}

func nestedDeleteScenarios(prefix string, n int, seed int64) []Scenario {
	var scs []Scenario
	for i := 0; i < n; i++ {
		ps := []int{1024, 4096}[i%2]
		o := Opts{PageSize: ps, NoFreelistSync: i%5 == 4}
		if i%2 == 1 {
			o.Freelist = "hashmap"
		}
		scs = append(scs, Scenario{Name: fmt.Sprintf("%s-%d-%d", prefix, seed, i), Kind: "nested", Seed: seed*811 + int64(i), Opts: o,
			Profile: []string{"half", "quarter", "small", "page"}[i%4], Observe: true,
			Params: map[string]int{"nested": 2 + i%6, "keys": 4 + (i*7)%30, "touch": i % 4, "action": (i / 4) % 4}})
	}
	return scs
}

// ---------------------------------------------------------------- C10

func init() {
	// steady overwrite workload: the file must stop growing once the free list has warmed up
	RegisterRunner("steady", func(sc Scenario, s *Session, rng *rand.Rand, res *ScenarioResult) {
		if err := s.Open(true); err != nil {
			panic(err)
		}
		const W = 1
		nk := sc.Params["keys"]
		s.Exec(Step{Ev: "Begin", H: W, W: true})
		s.Exec(Step{Ev: "Op", H: W, Op: "CreateBucket", K: 1})
		s.Exec(Step{Ev: "End", H: W, How: "commit"})
		var warm int64
		rounds := sc.Params["rounds"]
		for r := 0; r < rounds; r++ {
			s.Exec(Step{Ev: "Begin", H: W, W: true})
			for k := 1; k <= nk; k++ {
				s.Exec(Step{Ev: "Op", H: W, Op: "Put", Path: []int{1}, K: k, V: 1 + (r+k)%5})
			}
			s.Exec(Step{Ev: "End", H: W, How: "commit"})
			if sc.Params["reopenEvery"] > 0 && r%sc.Params["reopenEvery"] == sc.Params["reopenEvery"]-1 {
				s.Exec(Step{Ev: "Reopen"})
			}
			if r == rounds/3 {
				if fi, err := os.Stat(s.Path); err == nil {
					warm = fi.Size()
				}
			}
		}
		if fi, err := os.Stat(s.Path); err == nil && warm > 0 && fi.Size() > warm {
			res.Failures = append(res.Failures, fmt.Sprintf("file grew from %d to %d bytes during a steady overwrite workload with no reader open (C10)", warm, fi.Size()))
		}
		_ = s.CloseAll()
	})
}

func CheckC10(c *Ctx) int {
	c.Assume = boltAssume()
	if c.Replay != "" {
		return replayScenario(c, ValidateSpec{Bolt: true}, nil)
	}
	c.ModelCheck("Bolt", "MC_Isolation.cfg", 16, 30*time.Minute)
	c.ModelCheck("Bolt", "MC_Isolation_nofl.cfg", 16, 30*time.Minute)
	c.ModelCheck("Freelist", "MC_Freelist.cfg", 16, 30*time.Minute)
	if c.Thorough() {
		c.ModelCheck("Bolt", "MC_Isolation_deep.cfg", 16, 60*time.Minute)
	}
	// reader open/close patterns between writers
	scs := randomScenarios("c10r", c.Pick(60, 900), c.Seed, func(i int, rng *rand.Rand) GenCfg {
		return GenCfg{Keys: 10 + rng.Intn(30), Vals: 8, MaxDepth: 2, Readers: 1 + rng.Intn(4), Txs: 50 + rng.Intn(50), OpsPerTx: 2 + rng.Intn(8), PReopen: 0.06}
	}, true)
	n := c.Pick(8, 60)
	for i := 0; i < n; i++ {
		o := Opts{PageSize: []int{1024, 4096}[i%2], NoFreelistSync: i%3 == 1}
		if i%2 == 1 {
			o.Freelist = "hashmap"
		}
		scs = append(scs, Scenario{Name: fmt.Sprintf("c10s-%d-%d", c.Seed, i), Kind: "steady", Seed: c.Seed + int64(i), Opts: o,
			Profile: []string{"small", "half", "quarter"}[i%3], Observe: true,
			Params: map[string]int{"keys": 10 + 13*(i%5), "rounds": c.Pick(120, 300), "reopenEvery": []int{0, 40, 0, 25}[i%4]}})
	}
	scs = append(scs, concurrentScenarios("c10c", c.Pick(6, 60), c.Seed)...)
	// failed commits must not withhold pages either (a failed spill has already taken pages from the free list)
	scs = append(scs, faultScenarios("c10f", c.Pick(5, 50), c.Seed+9, false)...)
	o := RunScenarios(scs, ValidateSpec{Bolt: true}, filepath.Join(c.WorkDir, "runs"), 14, 5, c.ChildTimeout())
	c.Absorb(o)
	c.Cov["evaluations"] = o.Counters["commit"]
	c.Cov["distinct_nontrivial"] = DistinctNontrivial(o.PerScenario, func(m map[string]int) bool { return m["commit"] > 5 && m["alloc_from_free"] > 3 })
	c.Cov["rule"] = "evaluations = write transactions whose BeginWrite (release safety + liveness) and EndWrite (pending bound, partition) events TLC validated; non-trivial: > 5 commits and pages recycled from the free list"
	return c.Finish(nil)
}
