package core

import (
	"bufio"
	"encoding/json"
	"fmt"
	"io"
	"math/rand"
	"os"
	"os/exec"
	"path/filepath"
	"regexp"
	"runtime/debug"
	"strings"
	"time"

	bolt "go.etcd.io/bbolt"
)

// C17: file locks and read-only mode.

type lockActor interface {
	open(mode string, timeoutMs int, path string) (string, int)
	openFail(mode string, timeoutMs int, path string) (string, int)
	close() string
	quit()
}

type inprocActor struct{ db *bolt.DB }

func openMode(mode string, timeoutMs int, path string) (*bolt.DB, string, int) {
	t0 := time.Now()
	db, err := bolt.Open(path, 0o600, &bolt.Options{ReadOnly: mode == "ro", Timeout: time.Duration(timeoutMs) * time.Millisecond})
	ms := int(time.Since(t0).Milliseconds())
	if err != nil {
		return nil, ErrName(err), ms
	}
	return db, "ok", ms
}

// openFailMode attempts an open that fails after the file lock has been taken: the requested initial map
// size is beyond the platform maximum, so Open gives up in mmap and has to release everything again.
func openFailMode(mode string, timeoutMs int, path string) (string, int) {
	t0 := time.Now()
	db, err := bolt.Open(path, 0o600, &bolt.Options{ReadOnly: mode == "ro", Timeout: time.Duration(timeoutMs) * time.Millisecond, InitialMmapSize: 1 << 50})
	ms := int(time.Since(t0).Milliseconds())
	if err == nil {
		_ = db.Close()
		return "ok", ms
	}
	if n := ErrName(err); n == "ErrTimeout" {
		return n, ms
	}
	return "fail", ms
}

func (a *inprocActor) openFail(mode string, timeoutMs int, path string) (string, int) {
	return openFailMode(mode, timeoutMs, path)
}
func (p *procActor) openFail(mode string, timeoutMs int, path string) (string, int) {
	r := strings.Fields(p.rpc(fmt.Sprintf("openfail %s %d %s", mode, timeoutMs, path)))
	ms := 0
	if len(r) > 1 {
		fmt.Sscan(r[1], &ms)
	}
	if len(r) == 0 {
		return "err:no-reply", 0
	}
	return r[0], ms
}

func (a *inprocActor) open(mode string, timeoutMs int, path string) (string, int) {
	// an open without timeout is only issued when Lock.tla says it can succeed; if the lock is (wrongly) still
	// held it would wait for ever, so it runs under a watchdog and is reported as "hang"
	type r struct {
		db  *bolt.DB
		res string
		ms  int
	}
	ch := make(chan r, 1)
	go func() { db, res, ms := openMode(mode, timeoutMs, path); ch <- r{db, res, ms} }()
	select {
	case x := <-ch:
		a.db = x.db
		return x.res, x.ms
	case <-time.After(30 * time.Second):
		return "hang", 30000
	}
}
func (a *inprocActor) close() string {
	if a.db == nil {
		return "notopen"
	}
	err := a.db.Close()
	a.db = nil
	return ErrName(err)
}
func (a *inprocActor) quit() {
	if a.db != nil {
		a.db.Close()
	}
}

type procActor struct {
	cmd *exec.Cmd
	in  io.WriteCloser
	out *bufio.Reader
}

func newProcActor() (*procActor, error) {
	cmd := exec.Command(Self(), "lock-actor")
	in, _ := cmd.StdinPipe()
	out, _ := cmd.StdoutPipe()
	cmd.Stderr = os.Stderr
	if err := cmd.Start(); err != nil {
		return nil, err
	}
	return &procActor{cmd, in, bufio.NewReader(out)}, nil
}
func (p *procActor) rpc(line string) string {
	fmt.Fprintln(p.in, line)
	ch := make(chan string, 1)
	go func() { s, _ := p.out.ReadString('\n'); ch <- strings.TrimSpace(s) }()
	select {
	case s := <-ch:
		return s
	case <-time.After(30 * time.Second):
		return "err:actor-timeout 30000"
	}
}
func (p *procActor) open(mode string, timeoutMs int, path string) (string, int) {
	r := strings.Fields(p.rpc(fmt.Sprintf("open %s %d %s", mode, timeoutMs, path)))
	ms := 0
	if len(r) > 1 {
		fmt.Sscan(r[1], &ms)
	}
	if len(r) == 0 {
		return "err:no-reply", 0
	}
	return r[0], ms
}
func (p *procActor) close() string { return strings.Fields(p.rpc("close") + " x")[0] }
func (p *procActor) quit() {
	fmt.Fprintln(p.in, "quit")
	p.in.Close()
	done := make(chan struct{})
	go func() { _ = p.cmd.Wait(); close(done) }()
	select {
	case <-done:
	case <-time.After(3 * time.Second):
		// blocked in an open that never returns (reported as a hang by the schedule runner)
		_ = p.cmd.Process.Kill()
		<-done
	}
}

func init() {
	RegisterCmd("lock-actor", func(args []string) {
		sc := bufio.NewScanner(os.Stdin)
		var db *bolt.DB
		for sc.Scan() {
			f := strings.Fields(sc.Text())
			if len(f) == 0 {
				continue
			}
			switch f[0] {
			case "open":
				ms := 0
				fmt.Sscan(f[2], &ms)
				d, res, took := openMode(f[1], ms, f[3])
				db = d
				fmt.Printf("%s %d\n", res, took)
			case "openfail":
				ms := 0
				fmt.Sscan(f[2], &ms)
				res, took := openFailMode(f[1], ms, f[3])
				fmt.Printf("%s %d\n", res, took)
			case "close":
				if db == nil {
					fmt.Println("notopen")
				} else {
					fmt.Println(ErrName(db.Close()))
					db = nil
				}
			case "quit":
				return
			}
		}
	})
	RegisterCmd("ro-session", func(args []string) { roSession(args[0], args[1]) })
	RegisterCmd("poke", func(args []string) { poke(args[0]) })
}

// roSession: a generated API program + every write entry point against a database opened read-only.
func roSession(path, seedStr string) {
	var seed int64
	fmt.Sscan(seedStr, &seed)
	t := NewTracer()
	t.NoData = true
	t.Install()
	out := map[string]any{"ev": "ROSession"}
	db, err := bolt.Open(path, 0o600, &bolt.Options{ReadOnly: true, Timeout: time.Second, PreLoadFreelist: seed%2 == 0})
	if err != nil {
		out["openErr"] = err.Error()
		b, _ := json.Marshal(out)
		fmt.Println(string(b))
		return
	}
	_, e1 := db.Begin(true)
	e2 := db.Update(func(tx *bolt.Tx) error { return nil })
	e3 := db.Batch(func(tx *bolt.Tx) error { return nil })
	calls := 0
	rng := rand.New(rand.NewSource(seed))
	_ = db.View(func(tx *bolt.Tx) error {
		var walk func(b *bolt.Bucket, depth int)
		walk = func(b *bolt.Bucket, depth int) {
			c := b.Cursor()
			for k, v := c.First(); k != nil; k, v = c.Next() {
				calls++
				_ = b.Get(k)
				if v == nil && depth < 6 {
					if nb := b.Bucket(k); nb != nil {
						_ = nb.Sequence()
						_ = nb.Stats()
						// write entry points through a read-only transaction
						_ = nb.Put([]byte("x"), []byte("y"))
						_ = nb.Delete(k)
						_, _ = nb.NextSequence()
						_, _ = nb.CreateBucket([]byte("zz"))
						walk(nb, depth+1)
					}
				}
				if rng.Intn(3) == 0 {
					c.Seek(k)
					c.Prev()
					_ = c.Delete()
				}
			}
			c.Last()
		}
		_ = tx.ForEach(func(name []byte, b *bolt.Bucket) error { calls++; walk(b, 0); return nil })
		_, _ = tx.CreateBucket([]byte("nope"))
		_ = tx.DeleteBucket([]byte("nope"))
		for range tx.Check() {
		}
		_ = tx.Size()
		_, _ = tx.WriteTo(io.Discard)
		for i := 0; i < 8; i++ {
			_, _ = tx.Page(i)
		}
		return nil
	})
	_ = db.Stats()
	_ = db.Sync() // fdatasync on a read-only descriptor changes nothing on disk; it is still an I/O call we count separately
	_ = db.Close()
	writes := 0
	for _, io := range t.IOs {
		if io.Kind == "write" || io.Kind == "truncate" || io.Kind == "fsync" {
			writes++
		}
	}
	out["beginWriteErr"], out["updateErr"], out["batchErr"] = ErrName(e1), ErrName(e2), ErrName(e3)
	out["writeIOs"] = writes
	out["apiCalls"] = calls
	b, _ := json.Marshal(out)
	fmt.Println(string(b))
}

// poke writes into every slice a read transaction hands out.
func poke(path string) {
	debug.SetPanicOnFault(true)
	db, err := bolt.Open(path, 0o600, &bolt.Options{Timeout: time.Second})
	out := map[string]int{"fault": 0, "private": 0, "changed": 0}
	if err != nil {
		fmt.Println(`{"ev":"Poke","fault":0,"private":0,"changed":0,"err":"open"}`)
		return
	}
	type kv struct{ path, k, v []byte }
	tryWrite := func(b []byte) string {
		if len(b) == 0 {
			return "empty"
		}
		res := "written"
		func() {
			defer func() {
				if recover() != nil {
					res = "fault"
				}
			}()
			b[0] ^= 0x5A
		}()
		return res
	}
	before := fileSHA(path)
	_ = db.View(func(tx *bolt.Tx) error {
		var walk func(b *bolt.Bucket, depth int)
		walk = func(b *bolt.Bucket, depth int) {
			c := b.Cursor()
			for k, v := c.First(); k != nil; k, v = c.Next() {
				for _, sl := range [][]byte{k, v} {
					switch tryWrite(sl) {
					case "fault":
						out["fault"]++
					case "written":
						out["private"]++ // provisional: confirmed below by the unchanged file
					}
				}
				if v == nil && depth < 6 {
					if nb := b.Bucket(k); nb != nil {
						walk(nb, depth+1)
					}
				}
			}
		}
		return tx.ForEach(func(name []byte, b *bolt.Bucket) error {
			if tryWrite(name) == "fault" {
				out["fault"]++
			} else {
				out["private"]++
			}
			walk(b, 0)
			return nil
		})
	})
	db.Close()
	if fileSHA(path) != before {
		out["changed"] = out["private"]
		out["private"] = 0
	}
	fmt.Printf(`{"ev":"Poke","fault":%d,"private":%d,"changed":%d}`+"\n", out["fault"], out["private"], out["changed"])
}

var reLockBeh = regexp.MustCompile(`^<<"BEH", (\d+), "(.*)">>$`)

type lockStep struct {
	Op    string `json:"op"`
	A     int    `json:"a"`
	Mode  string `json:"mode"`
	Timed bool   `json:"timed"`
	Res   string `json:"res"`
}

func CheckC17(c *Ctx) int {
	c.Assume = []string{"TLC 1.8.0 evaluates the specification correctly", "actor 1 is a separate process, actors 2 and 3 are two opens inside one process",
		"timeouts of 250 ms against the 50 ms retry period; only generous latency bounds are asserted",
		"the writable-view clause is memory protection, not abstract state: a subprocess writes into every returned slice with SetPanicOnFault and the outcome is classified (DESIGN.md §6)"}
	c.ModelCheck("Lock", "MC_Lock.cfg", 4, 10*time.Minute)
	r, err := RunTLC(TLCJob{Module: "Lock", Config: "MC_Lock_sim.cfg", Workers: 1, Timeout: 5 * time.Minute,
		Args: []string{"-simulate", fmt.Sprintf("num=%d", c.Pick(10, 120)), "-depth", "15", "-seed", fmt.Sprint(c.Seed)}})
	var progs [][]lockStep
	seen := map[string]bool{}
	if err == nil {
		for _, line := range strings.Split(r.Output, "\n") {
			m := reLockBeh.FindStringSubmatch(strings.TrimSpace(line))
			if m == nil || seen[m[1]] {
				continue
			}
			seen[m[1]] = true
			js := strings.ReplaceAll(strings.ReplaceAll(m[2], `\"`, `"`), `\\`, `\`)
			var st []lockStep
			if json.Unmarshal([]byte(js), &st) == nil {
				progs = append(progs, st)
			}
		}
	}
	if len(progs) == 0 {
		c.Infra = append(c.Infra, "TLC produced no lock schedules: "+Tail(r.Output, 10))
		return c.Finish(nil)
	}
	dir := filepath.Join(c.WorkDir, "lock")
	_ = os.MkdirAll(dir, 0o755)
	var evs []Ev
	steps, conflicts, failedOpens := 0, 0, 0
	for pi, prog := range progs {
		path := filepath.Join(dir, fmt.Sprintf("l%d.db", pi))
		bf, err := BuildFile(path, Opts{PageSize: 4096}, ProfileByName(4096, "small"), c.Seed+int64(pi), GenCfg{Keys: 8, Vals: 4, MaxDepth: 2, Txs: 3, OpsPerTx: 5})
		if err != nil || bf == nil {
			c.Infra = append(c.Infra, "cannot build file for lock schedule")
			continue
		}
		p1, err := newProcActor()
		if err != nil {
			c.Infra = append(c.Infra, err.Error())
			continue
		}
		actors := map[int]lockActor{1: p1, 2: &inprocActor{}, 3: &inprocActor{}}
		evs = append(evs, Ev{"ev": "LReset", "program": pi})
		for _, st := range prog {
			steps++
			if st.Op == "open" {
				tmo := 250
				if !st.Timed {
					tmo = 0
				}
				res, ms := actors[st.A].open(st.Mode, tmo, path)
				if res != "ok" {
					conflicts++
				}
				evs = append(evs, Ev{"ev": "LOpen", "a": st.A, "mode": st.Mode, "timeoutMs": tmo, "res": res, "ms": ms, "expected": st.Res})
				if res == "hang" || strings.HasPrefix(res, "err:actor-timeout") {
					break // the actor is stuck in Open: the rest of this schedule cannot be run (the event above is rejected by TraceLock)
				}
			} else if st.Op == "openfail" {
				res, ms := actors[st.A].openFail(st.Mode, 250, path)
				failedOpens++
				evs = append(evs, Ev{"ev": "LOpenFail", "a": st.A, "mode": st.Mode, "timeoutMs": 250, "res": res, "ms": ms, "expected": st.Res})
			} else {
				evs = append(evs, Ev{"ev": "LClose", "a": st.A, "res": actors[st.A].close()})
			}
		}
		for _, a := range actors {
			a.quit()
		}
		os.Remove(path)
	}
	// a waiting open (no timeout) acquires the lock once the holder closes
	{
		path := filepath.Join(dir, "waiter.db")
		if _, err := BuildFile(path, Opts{PageSize: 4096}, ProfileByName(4096, "small"), c.Seed, GenCfg{Keys: 6, Vals: 4, MaxDepth: 2, Txs: 2, OpsPerTx: 4}); err == nil {
			for _, modes := range [][2]string{{"rw", "rw"}, {"rw", "ro"}, {"ro", "rw"}} {
				p1, err := newProcActor()
				if err != nil {
					continue
				}
				p1.open(modes[0], 250, path)
				got := make(chan string, 1)
				w := &inprocActor{}
				go func() { r, _ := w.open(modes[1], 0, path); got <- r }()
				blocked := false
				select {
				case <-got:
				case <-time.After(400 * time.Millisecond):
					blocked = true
				}
				p1.close()
				acquired := false
				if blocked {
					select {
					case r := <-got:
						acquired = r == "ok"
					case <-time.After(20 * time.Second):
					}
				}
				evs = append(evs, Ev{"ev": "LReset", "program": -1})
				evs = append(evs, Ev{"ev": "LWaiter", "a": 2, "holder": modes[0], "waiter": modes[1], "blockedWhileHeld": blocked, "acquiredAfterClose": acquired})
				if acquired {
					// the open that had to wait now holds the lock in the mode it asked for - not a stronger one: a
					// read-only open by someone else must coexist with a read-only waiter and time out against a read-write one
					res, ms := p1.open("ro", 250, path)
					evs = append(evs, Ev{"ev": "LOpen", "a": 1, "mode": "ro", "timeoutMs": 250, "res": res, "ms": ms, "expected": ""})
					if res == "ok" {
						evs = append(evs, Ev{"ev": "LClose", "a": 1, "res": p1.close()})
					}
					evs = append(evs, Ev{"ev": "LClose", "a": 2, "res": w.close()})
					steps += 2
				}
				w.quit()
				p1.quit()
				steps++
			}
		}
	}
	// read-only sessions (API program + every CLI inspection command) and the writable-view probe
	nro := c.Pick(6, 40)
	files := buildFiles(dir, nro, c.Seed+23, true)
	for i, bf := range files {
		// an ASCII-named bucket for the CLI commands that take names on the command line
		if db, err := bolt.Open(bf.Path, 0o600, &bolt.Options{Timeout: time.Second}); err == nil {
			_ = db.Update(func(tx *bolt.Tx) error {
				b, err := tx.CreateBucketIfNotExists([]byte("plain"))
				if err != nil {
					return err
				}
				_ = b.Put([]byte("k1"), []byte("v1"))
				nb, err := b.CreateBucketIfNotExists([]byte("nested"))
				if err != nil {
					return err
				}
				return nb.Put([]byte("k2"), []byte("v2"))
			})
			db.Close()
		}
		sha := fileSHA(bf.Path)
		out, _ := exec.Command(Self(), "ro-session", bf.Path, fmt.Sprint(c.Seed+int64(i))).Output()
		var e Ev
		if json.Unmarshal([]byte(strings.TrimSpace(string(out))), &e) != nil || e["openErr"] != nil {
			c.Infra = append(c.Infra, "ro-session failed: "+string(out))
			continue
		}
		e["shaSame"] = fileSHA(bf.Path) == sha
		// CLI inspection commands
		failed := []string{}
		cmds := [][]string{{"check", bf.Path}, {"stats", bf.Path}, {"pages", bf.Path}, {"page", bf.Path, "0"}, {"page", bf.Path, "2"}, {"page", "--all", bf.Path},
			{"dump", bf.Path, "0"}, {"dump", bf.Path, "3"}, {"buckets", bf.Path}, {"inspect", bf.Path}, {"info", bf.Path}, {"page-item", bf.Path, "3", "0"}}
		cmds = append(cmds, []string{"keys", bf.Path, "plain"}, []string{"get", bf.Path, "plain", "k1"}, []string{"get", "--format", "hex", bf.Path, "plain", "nested", "k2"})
		for _, cm := range cmds {
			o, code := CLI(60*time.Second, cm...)
			if code != 0 && !(cm[0] == "page-item" || cm[0] == "dump" || cm[0] == "page") {
				failed = append(failed, fmt.Sprintf("%s: exit %d %s", strings.Join(cm[:1], " "), code, Tail(o, 2)))
			}
		}
		e["cliFailed"] = failed
		e["cliShaSame"] = fileSHA(bf.Path) == sha
		e["name"] = fmt.Sprintf("ro-%d", i)
		evs = append(evs, e)
		// poke
		pout, _ := exec.Command(Self(), "poke", bf.Path).Output()
		var pe Ev
		if json.Unmarshal([]byte(strings.TrimSpace(string(pout))), &pe) == nil {
			evs = append(evs, pe)
		} else {
			c.Infra = append(c.Infra, "poke failed: "+string(pout))
		}
		steps += 2
	}
	tf := filepath.Join(c.WorkDir, "lock.ndjson")
	if _, err := WriteNDJSON(tf, evs, nil); err != nil {
		c.Infra = append(c.Infra, err.Error())
	}
	tr, err := RunTLC(TLCJob{Module: "TraceLock", Config: "TraceLock.cfg", Files: map[string]string{"trace.ndjson": tf}, Timeout: 10 * time.Minute})
	if err != nil {
		c.Infra = append(c.Infra, err.Error())
	} else if !tr.OK {
		if tr.Rejected > 0 && tr.Rejected <= len(evs) {
			ej, _ := json.Marshal(evs[tr.Rejected-1])
			c.Findings = append(c.Findings, Finding{Scenario: Scenario{Name: fmt.Sprintf("lock-line-%d", tr.Rejected), Kind: "lock", Profile: string(ej)}, Spec: "TraceLock", Detail: tr.Mismatch, Line: tr.Rejected})
		} else {
			c.Infra = append(c.Infra, "TraceLock did not finish: "+Tail(tr.Output, 12))
		}
	}
	c.Cov["trace_validation_states"] = tr.Distinct
	c.traces = len(progs) + len(files)
	c.AddSample(evs[1])
	c.AddSample(evs[len(evs)-2])
	c.Cov["evaluations"] = steps
	c.Cov["opens_failing_after_the_lock_was_taken"] = failedOpens
	c.Cov["distinct_nontrivial"] = conflicts + len(files)
	c.Cov["rule"] = "evaluations = schedule steps (open RW/RO with/without timeout, close; 3 actors: one separate process, two inside one process; schedules generated by TLC from Lock.tla) + waiting-open runs + read-only sessions + writable-view probes; non-trivial = an open attempt met a conflicting holder, or a read-only session issued >= 1 API call"
	return c.Finish(nil)
}
