package core

import (
	"math/rand"

	bolt "go.etcd.io/bbolt"
)

// GenCfg parameterises the randomized API driver (direction B: executions of the real
// code recorded and validated against TxKV by TLC).
type GenCfg struct {
	Keys       int     // ordinary keys 1..Keys
	Vals       int     // value ids 0..Vals-1
	MaxDepth   int     // bucket nesting
	Readers    int     // reader handles 2..Readers+1
	Txs        int     // write transactions
	OpsPerTx   int     // operations per write transaction (upper bound)
	PReopen    float64 // probability of a reopen between transactions
	ErrKeys    bool    // also use the empty / oversized key
	Cursors    bool    // cursor programs inside transactions
	DescMove   bool    // allow MoveBucket into a descendant (known finding C04-move-into-descendant)
	OptsChoice []Opts  // option records to choose from at reopen (C13)
	BigBucket  int     // when > 0: bias towards one bucket holding up to this many keys
}

type pathInfo struct {
	path []int
	keys []int  // all keys
	isB  []bool // bucket?
}

func walkPaths(s *Session, tx *bolt.Tx, b *bolt.Bucket, pre []int, depth int, out *[]pathInfo) {
	pi := pathInfo{path: append([]int(nil), pre...)}
	var c *bolt.Cursor
	if b == nil {
		c = tx.Cursor()
	} else {
		c = b.Cursor()
	}
	type ch struct {
		id int
		b  *bolt.Bucket
	}
	var children []ch
	for k, _ := c.First(); k != nil; k, _ = c.Next() {
		kk := append([]byte(nil), k...)
		id := s.Prof.KeyID(kk)
		var child *bolt.Bucket
		if b == nil {
			child = tx.Bucket(kk)
		} else {
			child = b.Bucket(kk)
		}
		pi.keys = append(pi.keys, id)
		pi.isB = append(pi.isB, child != nil)
		if child != nil {
			children = append(children, ch{id, child})
		}
	}
	*out = append(*out, pi)
	if depth > 8 {
		return
	}
	for _, c := range children {
		walkPaths(s, tx, c.b, append(pre, c.id), depth+1, out)
	}
}

// Paths lists the bucket paths visible in handle h (walks the real transaction).
func (s *Session) Paths(h int) []pathInfo {
	t := s.txs[h]
	if t == nil || !t.open {
		return nil
	}
	var out []pathInfo
	s.run(t, "walk", func() { walkPaths(s, t.tx, nil, nil, 0, &out) })
	return out
}

func isPrefix(p, q []int) bool {
	if len(p) > len(q) {
		return false
	}
	for i := range p {
		if p[i] != q[i] {
			return false
		}
	}
	return true
}

func pick(rng *rand.Rand, n int) int {
	if n <= 0 {
		return 0
	}
	return rng.Intn(n)
}

// genKey picks a key: mostly ordinary, biased towards existing ones half of the time.
func genKey(rng *rand.Rand, cfg GenCfg, pi pathInfo) int {
	if cfg.ErrKeys && rng.Intn(40) == 0 {
		switch rng.Intn(3) {
		case 0:
			return EmptyKey
		case 1:
			return MaxKey // exactly MaxKeySize bytes: legal
		}
		return BigKey
	}
	if len(pi.keys) > 0 && rng.Intn(2) == 0 {
		return pi.keys[rng.Intn(len(pi.keys))]
	}
	return 1 + rng.Intn(cfg.Keys)
}

// RandomOp generates one operation for handle h from the real transaction's current view.
func (s *Session) RandomOp(rng *rand.Rand, cfg GenCfg, h int, writable bool) (Step, bool) {
	ps := s.Paths(h)
	if len(ps) == 0 {
		return Step{}, false
	}
	pi := ps[rng.Intn(len(ps))]
	if cfg.BigBucket > 0 && len(ps) > 1 && rng.Intn(3) > 0 {
		pi = ps[1]
	}
	st := Step{Ev: "Op", H: h, Path: pi.path}
	root := len(pi.path) == 0
	k := genKey(rng, cfg, pi)
	var ops []string
	if writable {
		if root {
			ops = []string{"CreateBucket", "CreateBucket", "CreateBucketIfNotExists", "DeleteBucket", "MoveBucket", "Lookup", "CountBuckets"}
		} else {
			ops = []string{"Put", "Put", "Put", "Put", "Put", "Get", "Delete", "Delete", "CreateBucket", "CreateBucketIfNotExists",
				"DeleteBucket", "MoveBucket", "NextSequence", "SetSequence", "Sequence", "Lookup", "CountKeys"}
			if cfg.BigBucket > 0 {
				ops = append(ops, "Put", "Put", "Put", "Delete", "Delete", "Delete", "Put", "Delete")
			}
		}
	} else {
		if root {
			ops = []string{"Lookup", "CountBuckets", "CreateBucket", "DeleteBucket"}
		} else {
			ops = []string{"Get", "Get", "Get", "Sequence", "Lookup", "CountKeys", "Put", "Delete", "NextSequence", "SetSequence"}
		}
	}
	st.Op = ops[rng.Intn(len(ops))]
	st.K = k
	switch st.Op {
	case "CreateBucket", "CreateBucketIfNotExists":
		if len(pi.path) >= cfg.MaxDepth {
			st.Op = "Lookup"
		}
		if st.K >= MaxKey {
			st.K = 1 + rng.Intn(cfg.Keys) // oversized bucket names: accepted by the code, not part of C04's list
		}
	case "Put":
		st.V = rng.Intn(cfg.Vals)
	case "SetSequence":
		st.V = rng.Intn(1000)
	case "DeleteBucket", "MoveBucket":
		// prefer an existing bucket
		var bs []int
		for i, kk := range pi.keys {
			if pi.isB[i] {
				bs = append(bs, kk)
			}
		}
		if len(bs) > 0 && rng.Intn(4) > 0 {
			st.K = bs[rng.Intn(len(bs))]
		}
		if st.K == EmptyKey || st.K >= MaxKey {
			st.K = 1 + rng.Intn(cfg.Keys)
		}
		if st.Op == "MoveBucket" {
			d := ps[rng.Intn(len(ps))]
			st.Dst = d.path
			moved := append(append([]int(nil), pi.path...), st.K)
			if isPrefix(moved, d.path) && !cfg.DescMove {
				st.Dst = pi.path // becomes ErrSameBuckets / not found: still a legal call
			}
		}
	}
	return st, true
}

// RandomCursorProgram runs a short cursor program on handle h.
func (s *Session) RandomCursorProgram(rng *rand.Rand, cfg GenCfg, h int, cid int, n int) {
	ps := s.Paths(h)
	if len(ps) == 0 {
		return
	}
	pi := ps[rng.Intn(len(ps))]
	if cfg.BigBucket > 0 && len(ps) > 1 {
		pi = ps[1]
	}
	s.Exec(Step{Ev: "NewCur", C: cid, H: h, Path: pi.path})
	positioned := false
	for i := 0; i < n; i++ {
		ops := []string{"First", "Last", "Seek", "Next", "Next", "Prev", "Prev", "Next", "Prev"}
		op := ops[rng.Intn(len(ops))]
		if !positioned && (op == "Next" || op == "Prev") && rng.Intn(4) > 0 {
			op = []string{"First", "Last", "Seek"}[rng.Intn(3)]
		}
		st := Step{Ev: "Cur", C: cid, Op: op}
		if op == "Seek" {
			st.Arg = rng.Intn(cfg.Keys + 2)
			if len(pi.keys) > 0 && rng.Intn(2) == 0 {
				st.Arg = pi.keys[rng.Intn(len(pi.keys))]
			}
		}
		s.Exec(st)
		if op == "First" || op == "Last" || op == "Seek" {
			positioned = true
		}
	}
}

// RunRandom drives a whole randomized history.
func (s *Session) RunRandom(rng *rand.Rand, cfg GenCfg) {
	const W = 1
	cid := 0
	for txn := 0; txn < cfg.Txs; txn++ {
		// readers come and go between (and during) write transactions
		for r := 0; r < cfg.Readers; r++ {
			h := 2 + r
			open := s.Tx(h) != nil
			switch {
			case !open && rng.Intn(3) == 0:
				s.Exec(Step{Ev: "Begin", H: h, W: false, Managed: rng.Intn(4) == 0})
				s.Exec(Step{Ev: "Dump", H: h})
			case open && rng.Intn(4) == 0:
				s.Exec(Step{Ev: "Dump", H: h})
				s.Exec(Step{Ev: "End", H: h, How: "rollback"})
			case open && rng.Intn(2) == 0:
				if st, ok := s.RandomOp(rng, cfg, h, false); ok {
					s.Exec(st)
				}
				if cfg.Cursors && rng.Intn(2) == 0 {
					cid++
					s.RandomCursorProgram(rng, cfg, h, cid, 3+rng.Intn(6))
				}
			}
		}
		s.Exec(Step{Ev: "Begin", H: W, W: true, Managed: rng.Intn(3) == 0})
		if s.Tx(W) == nil {
			continue
		}
		n := 1 + rng.Intn(cfg.OpsPerTx)
		for i := 0; i < n; i++ {
			if st, ok := s.RandomOp(rng, cfg, W, true); ok {
				s.Exec(st)
			}
			if cfg.Cursors && rng.Intn(6) == 0 {
				cid++
				s.RandomCursorProgram(rng, cfg, W, cid, 3+rng.Intn(8))
			}
		}
		if rng.Intn(3) == 0 {
			s.Exec(Step{Ev: "Dump", H: W})
		}
		if rng.Intn(4) == 0 {
			if ps := s.Paths(W); len(ps) > 0 {
				s.Exec(Step{Ev: "ForEach", H: W, Path: ps[rng.Intn(len(ps))].path})
			}
		}
		how := "commit"
		switch rng.Intn(8) {
		case 0:
			how = "rollback"
		case 1:
			how = "fnerr"
		case 2:
			how = "panic"
		}
		if t := s.txs[W]; t != nil && !t.managed && how != "commit" {
			how = "rollback"
		}
		s.Exec(Step{Ev: "End", H: W, How: how})
		// every open reader must still see its own version
		rs, _ := s.OpenHandles()
		for _, h := range rs {
			if rng.Intn(2) == 0 {
				s.Exec(Step{Ev: "Dump", H: h})
			}
		}
		if rng.Float64() < cfg.PReopen {
			var o *Opts
			if len(cfg.OptsChoice) > 0 {
				oc := cfg.OptsChoice[rng.Intn(len(cfg.OptsChoice))]
				o = &oc
			}
			s.Exec(Step{Ev: "Reopen", Opts: o})
			s.Exec(Step{Ev: "Begin", H: 2, W: false})
			s.Exec(Step{Ev: "Dump", H: 2})
			s.Exec(Step{Ev: "End", H: 2, How: "rollback"})
		}
	}
	// final state through a fresh reader
	rs, _ := s.OpenHandles()
	for _, h := range rs {
		s.Exec(Step{Ev: "Dump", H: h})
		s.Exec(Step{Ev: "End", H: h, How: "rollback"})
	}
	s.Exec(Step{Ev: "Begin", H: 2, W: false})
	s.Exec(Step{Ev: "Dump", H: 2})
	s.Exec(Step{Ev: "ForEach", H: 2, Path: nil})
	s.Exec(Step{Ev: "End", H: 2, How: "rollback"})
}
