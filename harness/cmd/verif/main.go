package main

import (
	"fmt"
	"os"
	"runtime/debug"

	"verif/harness/core"
)

var checks = map[string]func(*core.Ctx) int{
	"C01": core.CheckC01,
	"C02": core.CheckC02,
	"C03": core.CheckC03,
	"C04": core.CheckC04,
	"C05": core.CheckC05,
	"C06": core.CheckC06,
	"C07": core.CheckC07,
	"C08": core.CheckC08,
	"C09": core.CheckC09,
	"C10": core.CheckC10,
	"C11": core.CheckC11,
	"C12": core.CheckC12,
	"C13": core.CheckC13,
	"C14": core.CheckC14,
	"C15": core.CheckC15,
	"C16": core.CheckC16,
	"C17": core.CheckC17,
	"C18": core.CheckC18,
	"C19": core.CheckC19,
	"C20": core.CheckC20,
}

func main() {
	if len(os.Args) < 2 {
		fmt.Println("usage: verif check <ID> <quick|thorough> | verif check <ID> --replay <path> | verif child <job.json>")
		os.Exit(2)
	}
	switch os.Args[1] {
	case "child":
		if err := core.RunJob(os.Args[2]); err != nil {
			fmt.Fprintln(os.Stderr, "child:", err)
			os.Exit(4)
		}
	case "check":
		if len(os.Args) < 4 {
			fmt.Println("usage: verif check <ID> <quick|thorough|--replay path>")
			os.Exit(2)
		}
		id := os.Args[2]
		fn := checks[id]
		if fn == nil {
			fmt.Printf("no check registered for %s\n", id)
			os.Exit(2)
		}
		tier := os.Args[3]
		c := core.NewCtx(id, "quick")
		if tier == "--replay" {
			if len(os.Args) < 5 {
				fmt.Println("missing replay path")
				os.Exit(2)
			}
			c.Replay = os.Args[4]
		} else if tier == "thorough" {
			c.Tier = "thorough"
		}
		if t := os.Getenv("VERIF_TIER"); t == "thorough" && tier != "--replay" {
			c.Tier = "thorough"
		}
		os.Exit(runCheck(fn, c))
	default:
		if !core.RunExtra(os.Args[1:]) {
			fmt.Println("unknown command", os.Args[1])
			os.Exit(2)
		}
	}
}

// runCheck runs one check. A panic that reaches the check's own goroutine is classified by where it was
// raised: inside go.etcd.io/bbolt it is behaviour of the code under test (a finding with the stack as
// evidence), anywhere else it is a defect of the harness (infrastructure, exit 2).
func runCheck(fn func(*core.Ctx) int, c *core.Ctx) (rc int) {
	defer func() {
		if p := recover(); p != nil {
			st := string(debug.Stack())
			if core.PanicInRealCode(st) {
				c.Findings = append(c.Findings, core.Finding{Scenario: core.Scenario{Name: "check-process", Kind: "panic"}, Spec: "harness",
					Detail: fmt.Sprintf("the real code panicked while the check was driving it in-process: %v | %s", p, core.Tail(st, 40))})
				rc = c.Finish(nil)
				return
			}
			fmt.Printf("INFRA: panic in the harness: %v\n%s\n", p, st)
			c.Cleanup()
			rc = 2
		}
	}()
	return fn(c)
}
