package main

import (
	"fmt"
	"math/rand"
	"os"
	"path/filepath"
	"strconv"
	"time"

	"verif/harness/core"
)

func main() {
	if len(os.Args) < 2 {
		fmt.Println("usage: verif <cmd> ...")
		os.Exit(2)
	}
	switch os.Args[1] {
	case "exp-kv":
		seed, _ := strconv.Atoi(os.Args[2])
		dir, _ := os.MkdirTemp("", "verif-exp-")
		defer os.RemoveAll(dir)
		t := core.NewTracer()
		t.NoData = true
		t.Install()
		ps := 1024
		s := core.NewSession(filepath.Join(dir, "db"), core.Opts{PageSize: ps, InitialMmapSize: 1 << 26}, core.ProfileByName(ps, "half"), t)
		if err := s.Open(true); err != nil {
			panic(err)
		}
		rng := rand.New(rand.NewSource(int64(seed)))
		s.RunRandom(rng, core.GenCfg{Keys: 12, Vals: 6, MaxDepth: 3, Readers: 2, Txs: 40, OpsPerTx: 8, PReopen: 0.1, ErrKeys: true, Cursors: true})
		s.CloseAll()
		tf := filepath.Join(dir, "trace.ndjson")
		n, err := core.WriteNDJSON(tf, t.Snapshot(), core.KeepKV)
		fmt.Println("events", n, err)
		core.WriteNDJSON("/tmp/last-trace.ndjson", t.Snapshot(), core.KeepKV)
		r, err := core.RunTLC(core.TLCJob{Module: "TraceKV", Config: "TraceKV.cfg", Files: map[string]string{"trace.ndjson": tf}, Timeout: 2 * time.Minute})
		fmt.Println(err, r.OK, r.Rejected, r.Mismatch, r.Generated, r.Wall)
		if !r.OK {
			fmt.Println(core.Tail(r.Output, 40))
		}
	}
}
