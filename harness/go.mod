module verif/harness

go 1.25.0

toolchain go1.25.11

require (
	go.etcd.io/bbolt v0.0.0
	pgregory.net/rapid v1.3.0
)

require golang.org/x/sys v0.46.0 // indirect

replace go.etcd.io/bbolt => /repo
